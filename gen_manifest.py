#!/usr/bin/env python3
# Generates /verif/MANIFEST.json from the table below (kept next to the checks so that the
# manifest never drifts from what ./check implements).
import json, subprocess

hook_commits = subprocess.run("cd /repo && git log --format=%h --grep='^verif hooks'", shell=True, capture_output=True, text=True).stdout.split()

TX_NOTE = ("Traces come from the real code on a simulated disk (page-granular loss model, coherent private mmap views poisoned on unmap); "
           "the abstraction function (snapshot projection, independent header/list-page/stamp decoders) is trusted; allocation policy is deliberately not constrained; "
           "bounds: see evidence (number of histories, transactions, crash images).")
TX_TECH = "TLA+ specification (TxCore/TxTrace) + TLC trace validation of recorded executions of the real code; every named property evaluated by TLC in every state of every trace"

checks = {
 "C01": dict(text="Crash atomicity: TLC evaluates TxCore!CrashSafe (every subset of un-synced writes, torn header write) on the decoded real I/O of random histories after every write/sync; crash images enumerated on the real I/O log are opened by the real code and each recovered logical state is judged by TxTrace!Recovered against committed / in-flight; a sample of recovered files is driven further (transaction, reopen) and judged as its own trace. TxFile.tla explores the design exhaustively within small bounds.",
             ref="6 C01"),
 "C03": dict(text="Store returns what was written: every read (inside write transactions, through readers after every transaction, after reopen) of random histories over the configuration dimensions is judged by TLC against the sequential model of TxTrace.tla (ReadW/ReadR/BeginRoot, HeaderAgrees).", ref="6 C03"),
 "C04": dict(text="Exclusive ownership: every Alloc result is judged by TxTrace!AllocOK (unused before the call, not live, not freed-in-tx committed page, not internal, not twice) and TxCore!Ownership/Partition are evaluated by TLC on the projection of the real allocator after every operation of allocation/free-churn histories.", ref="6 C04"),
 "C07": dict(text="Abort leaves no trace: after Rollback, Close and failing Commit (injected write/first-sync failures, out of space) the complete projection of the real file must equal the one recorded at Begin (TxTrace!RollbackExact), reads return the committed model and reopen shows the same state.", ref="6 C07"),
 "C08": dict(text="I/O failure containment: every selected I/O call index x failure mode x burst length is injected into re-runs of base histories; TLC judges error results (only when a failure was injected or the file is full, never after the in-memory switch), RollbackExact, reads = committed model, CrashSafe incl. the state of a failed attempt whose header may have reached the disk, and the state shown by a plain reopen. Two genuine defects are listed as known findings.", ref="6 C08"),
 "C09": dict(text="Lock.tla (one action per lock method, explicit sleep/wake-up of sync.Cond waiters) is checked exhaustively by TLC for mutual exclusion, exact release, no deadlock and liveness under weak fairness; every transition of the LockReplay state graph (incl. acquire-after-wake-up) is driven through the real File with gated goroutines and the observed executions, plus all open-time maintenance transactions, are judged by TLC against LockTrace.tla.", ref="6 C09",
             note="Bounded process sets (quick: 3 readers/2 writers/closer explorer, 2/2/closer replay); sync.Mutex and sync.Cond are trusted primitives; data-race freedom is not decided by the specification.",
             tech="TLA+ specification + TLC exhaustive model checking; TLC-generated transition cover replayed on the real code; TLC trace validation of recorded executions"),
 "C10": dict(text="Reopen is lossless: the projection of the reopened real file must equal the one before Close (TxTrace!ReopenProjection), TxCore!ReopenStable (what an independent decoder reads from the written pages = in-memory state) is evaluated at every quiescent point, and the continued history is judged like any other; scenarios cover free runs of 254/255/256/300/511 pages, >300 free regions (several freelist pages), 200 pending overwrites (several mapping pages), files grown past the mapped 64 KiB and the overflow area.", ref="6 C10"),
 "C11": dict(text="Space conservation: TxCore!Partition, MetaAccounting, Conservation (allocatable + live + meta + 2 = max), StatsTruthful and ExtentBound are evaluated by TLC on the projection of the real allocator / FileStats / file extent at every quiescent point of long alloc/free cycles on small bounded files (incl. max sizes that are not a multiple of the page size, preallocation).", ref="6 C11"),
}

PQ_NOTE = ("Traces come from the real Writer/Reader/ACK API on a real File on the simulated disk; flush/ACK effects are linearised at the store's commit/switched hook; "
           "event contents identify the event id modulo 256; the layout arithmetic of SpaceBound assumes the 28 byte page header and 4 byte event header; bounds: see evidence.")
PQ_TECH = "TLA+ specification (PQTrace) + TLC trace validation of recorded executions of the real queue; crash images / interleavings generated by the harness, judged by TLC"
checks.update({
 "C05": dict(text="Queue FIFO/exactly-once/byte-identical: every RNext size, every byte returned by RRead (content identifies the event id) and the read cursor of random producer/consumer histories (size classes around page and header boundaries, chunked writes with flushes inside events, partial reads and skips, full-file retries, reopen in the middle of an event) are judged by PQTrace.tla (Fifo, ReadBytes, EventSize, WriteAccepted).", ref="6 C05", note=PQ_NOTE, tech=PQ_TECH),
 "C06": dict(text="Queue durability: at every I/O boundary of producer/consumer histories crash images are enumerated, opened by the real code (file, delegate, queue) and drained with the real Reader; PQTrace!CrashDrain requires exactly flushed minus ACKed (or that with the one transaction in its commit applied completely), in order, byte-identical; close/reopen points are judged by CloseFlushes/ReopenPending/NoRedelivery; flushes hit by transient injected I/O errors must be durable after the retry that reports success.", ref="6 C06", note=PQ_NOTE, tech=PQ_TECH),
 "C12": dict(text="Queue space: fill-to-error/drain cycles on small bounded files; PQTrace judges that operations fail only when the file is full (or a failure was injected) and without loss, that reading and ACK succeed on the full file, that buffered events are delivered in order after space was freed, and that pages held (queue header, FileStats) and file extent stay within SpaceBound after every ACK.", ref="6 C12", note=PQ_NOTE, tech=PQ_TECH),
 "C13": dict(text="Concurrent producer/consumer: free-running two-goroutine executions and steered interleavings (a read transaction spans a flush/ACK commit that waits for the exclusive lock, via gates on the store's hooks) are recorded in real order and judged by PQTrace.tla (exact sequence, callbacks, ACK bounds, no panic/hang); a race-detector build of the same drivers reports data races.", ref="6 C13", note=PQ_NOTE + " Data-race freedom is sampled by the race detector, not decided by the specification.", tech=PQ_TECH + "; Go race detector on the concurrent drivers"),
 "C17": dict(text="Counters and callbacks: Pending, Active, Reader.Available and the Flushed/ACKed callback totals are judged by PQTrace.tla at every observation point of producer/consumer/reopen histories incl. failed flushes on full files.", ref="6 C17", note=PQ_NOTE, tech=PQ_TECH),
})

checks.update({
 "C02": dict(text="Snapshot isolation: the interleavings are the maximal paths of the LockReplay state graph (TLC as generator: every transition of readers x writers incl. all commit steps, blocked and woken acquisitions); each path is replayed on a real File with real data behind goroutine gates, every active reader reads (first touches at every point of the path) its snapshot after every step; TxTrace.tla judges every read against the snapshot taken at BeginR, the exclusivity of the in-memory switch and the reader count. A race-detector build runs a free reader/writer stress.", ref="6 C02",
             note=TX_NOTE + " Interleavings are bounded by the LockReplay configuration (2 readers, 2 writers, 1 transaction each in the quick tier).",
             tech="TLA+ specification + TLC-generated interleavings (transition cover of LockReplay) replayed on the real code with gated goroutines; TLC trace validation with TxTrace; Go race detector"),
 "C14": dict(text="Max-size change on open: histories in which the file is reopened with FlagUpdMaxSize and a larger / smaller / unbounded limit (with and without Prealloc, overflow transactions, live pages beyond the new limit) are judged by TxTrace.tla: contents and root unchanged (ResizeKeepsState, ReopenStable, every read), limit persisted and in force, lock idle after Open, Conservation with the new limit, extent bound after shrinking, later plain reopen equal.", ref="6 C14"),
 "C15": dict(text="Misuse: TLC enumerates every transition of Api.tla (lifecycle states of Tx, Page, Reader, Writer, ACK x public methods); ApiReplay prints one path per transition; each path is executed on the real code (recover + watchdog per call, state digests before/after) and ApiTrace.tla judges the observed error kind against Api.tla!Expect and MisuseChangesNothing.", ref="6 C15",
             note="The outcome table Api.tla!Expect transcribes the documentation of the public methods; cells on which the documentation is silent are 'unspecified' (only no panic / no hang / no change is required); calls that would self-deadlock by design (committing while the same goroutine holds a read transaction) are not exercised.",
             tech="TLA+ specification (Api.tla) + TLC state graph turned into one implementation test per transition; TLC trace validation with ApiTrace"),
 "C16": dict(text="Header choice: Header.tla (slot states over a txid ring incl. wrap-around) is checked exhaustively; every single-bit flip (quick: all bits of magic/version/page size, a third of the rest; thorough: all), every byte-prefix tear, zeroed / garbage / multi-byte damage and a byte copy of the other header, for either slot and for both, on committed histories with either slot active and txids at the 2^64 wrap, is applied to the real file image; the real Open result and the logical state read back are judged by HeaderTrace.tla against validity and age computed by an independent decoder.", ref="6 C16",
             note="Validity (magic, version, FNV-1a over the 80 bytes before the checksum) and relative age (serial number arithmetic) are computed by the harness' independent decoder; checksum arithmetic itself is enumerated on real bytes, not modelled in TLA+.",
             tech="TLA+ specification (Header.tla) + TLC exhaustive check; concrete corruption enumeration on real bytes judged by TLC (HeaderTrace)"),
 "C18": dict(text="Path lock: PathLock.tla (3 handles; plain / read-only / waiting opens, failing opens for three causes, close) is checked exhaustively; PathLockReplay prints one path per transition (ghost history so that e.g. an open after 'a waiter acquired after the holder closed' is covered); every path is executed with the real Open/Close on the real file system and PathLockTrace.tla judges every result (ok / lock error / other error / blocked / returned).", ref="6 C18",
             note="Runs on the sandbox' real file system and flock implementation; a waiting open that the model says is blocked is given 40 ms to (wrongly) return.",
             tech="TLA+ specification (PathLock.tla) + TLC transition cover replayed on the real code and OS; TLC trace validation"),
})

out = {
 "version": 1,
 "setup_cmd": "cd /verif/harness && GOFLAGS=-mod=mod GOPROXY=off GOSUMDB=off GOTOOLCHAIN=local go build -tags verif -o /verif/bin/txv ./cmd/txv",
 "hooks": {
  "guard": "verif",
  "enable": "go build -tags verif (harness module /verif/harness with replace github.com/elastic/go-txfile => /repo)",
  "baseline_off_cmd": "cd /repo && GOFLAGS=-mod=mod GOPROXY=off GOSUMDB=off GOTOOLCHAIN=local go test -mod=mod -json -vet=off -count=1 -timeout 25m ./...",
  "source_commits": hook_commits,
  "add_only": True,
 },
 "engines": [
  {"name": "tlc-explorer", "path": "/verif/spec", "serves_properties": sorted(checks), "kind_free_text": "TLA+ specifications checked exhaustively by TLC within small constants (cfg/MC_*.cfg)"},
  {"name": "tlc-judge", "path": "/verif/spec", "serves_properties": sorted(checks), "kind_free_text": "TLA+ trace specifications (*Trace.tla): TLC decides whether executions recorded from the real code are behaviours of the specification and evaluates all named properties in every state"},
  {"name": "harness", "path": "/verif/harness", "serves_properties": sorted(checks), "kind_free_text": "Go conformance harness (build tag verif): simulated disk with crash images and fault plans, goroutine gates on verif hooks, replay of TLC-generated paths on the real code, trace recorder with independent decoders"},
 ],
 "checks": [],
 "not_applicable": [],
 "notes": "see DESIGN.md; known findings in /verif/known-findings.jsonl",
}
for pid in sorted(checks):
    c = checks[pid]
    out["checks"].append({
        "property_id": pid,
        "quick_cmd": f"./check {pid} quick",
        "thorough_cmd": f"./check {pid} thorough",
        "evidence_file": f"/verif/evidence/{pid}.json",
        "replay_cmd_template": f"./check {pid} quick --replay {{path}}",
        "engine": "tlc-explorer + tlc-judge + harness",
        "level_claimed": {"category": "model_checking", "text": c["text"], "design_ref": "DESIGN.md section " + c["ref"]},
        "level_note": c.get("note", TX_NOTE),
        "technique": c.get("tech", TX_TECH),
    })
props = [json.loads(l)["id"] for l in open("/verif/properties.jsonl")]
pending = {
}
for pid in props:
    if pid not in checks:
        out["not_applicable"].append({"property_id": pid, "reason": pending.get(pid, "check under construction in this session (specification and harness not committed yet); will be claimed once it runs clean on the unchanged tree")})
json.dump(out, open("/verif/MANIFEST.json", "w"), indent=1)
print("manifest:", len(out["checks"]), "checks,", len(out["not_applicable"]), "not claimed")
