package checks

import (
	"sync/atomic"
	"fmt"
	"math/rand"
	"sync"
	"time"

	txfile "github.com/elastic/go-txfile"

	"verif/core"
	"verif/fenv"
	"verif/simdisk"
)

// crashBudget bounds the crash image enumeration of one history.
type crashBudget struct {
	MaxBits   int   // enumerate all subsets if #pending <= MaxBits
	Random    int   // random subsets otherwise
	Tears     []int // byte positions at which a pending header write is torn
	ContEvery int   // run a continuation on every n-th distinct recovered image
	Seed      int64
	Tick      *int64 // progress counter of the caller's watchdog
}

type recovered struct {
	ok    bool
	err   string
	root  uint64
	pages [][2]interface{}
	model map[uint64][4]int
	key   string
}

// recoverImage opens a crash image with the real code and reads its logical state.
func recoverImage(img []byte, name string) (res recovered, f *txfile.File, disk *simdisk.Disk) {
	defer func() {
		if p := recover(); p != nil {
			res = recovered{ok: false, err: "panic: " + fmt.Sprint(p)}
			f = nil
		}
	}()
	disk = simdisk.FromImage(name, img)
	f, err := txfile.VerifOpenWith(disk, txfile.Options{})
	if err != nil {
		return recovered{ok: false, err: fenv.ErrKind(err) + ": " + err.Error()}, nil, disk
	}
	root, pages, model, err := fenv.ReadLogical(f)
	if err != nil {
		f.Close()
		return recovered{ok: false, err: "read: " + err.Error()}, nil, disk
	}
	return recovered{ok: true, root: root, pages: pages, model: model, key: fmt.Sprint(root, pages)}, f, disk
}

// continuation runs one more transaction on a recovered file (alloc, write,
// free, commit, re-read): the recovered file must be fully operational.
func continuation(name string, img []byte, rng *rand.Rand) *core.Trace {
	tr := &core.Trace{Name: name, Meta: name}
	e := fenv.New(name, txfile.Options{})
	e.Disk = simdisk.FromImage(name, img)
	func() {
		defer func() {
			if p := recover(); p != nil {
				e.Emit(core.Event{"ev": "Panic", "msg": fmt.Sprint(p), "stack": core.ShortStack()})
			}
		}()
		// learn the logical state first (plain open), then adopt it as the model
		rec, f, _ := recoverImage(img, name)
		if !rec.ok {
			return // judged by the Recovered/RecoverFailed event of the main trace
		}
		f.Close()
		// pages that were allocated but never written (beyond the extent of the file) have
		// no defined contents
		for id, q := range rec.model {
			for i := range q {
				if q[i] == fenv.QPoison {
					q[i] = -1
				}
			}
			rec.model[id] = q
		}
		e.Disk = simdisk.FromImage(name, img)
		e.Disk.OnOp = e.OnDiskOp
		// the image may be larger than the limit stored in it (a max-size update that shrank the
		// limit leaves the file as large as it was): the extent bound is the size it already has
		e.ExtentLimit = uint(len(img))
		if err := e.Open(rec.model, rec.root); err != nil {
			e.Emit(core.Event{"ev": "OpenFailed", "err": fenv.ErrKind(err)})
			return
		}
		live := sortedKeys(e.Live)
		if err := e.Begin(txfile.TxOptions{WALLimit: 2}); err != nil {
			return
		}
		ids, err := e.Alloc(2)
		if err == nil {
			e.Set(ids[0], 4)
			e.Set(ids[1], 2)
		}
		if len(live) > 0 {
			e.Set(live[rng.Intn(len(live))], 1+rng.Intn(4))
		}
		if len(live) > 1 {
			id := live[rng.Intn(len(live))]
			if !e.TxDirty[id] {
				if id == e.TxRoot {
					e.SetRoot(0)
				}
				e.Free(id)
			}
		}
		e.Commit()
		e.ReadAll("after")
		if e.Begin(txfile.TxOptions{}) == nil {
			e.Alloc(3)
			e.Rollback(false)
		}
		e.Reopen(txfile.Options{})
		e.ReadAll("reopened")
		e.Close()
	}()
	tr.Events = e.Events()
	tr.Writer = e.WriterEvents()
	return tr
}

// crashExplore enumerates crash images of the I/O log of a finished history,
// recovers each with the real code and inserts the observations into the trace.
func crashExplore(r *core.Run, tr *core.Trace, env *fenv.Env, b crashBudget) (out *core.Trace, conts []*core.Trace, images int) {
	rng := rand.New(rand.NewSource(b.Seed))
	ops := env.Disk.Ops()
	// trace position of every op index
	posOf := map[int]int{}
	adoptIO := -1
	for i, ev := range tr.Events {
		if io, ok := ev["io"]; ok {
			n := io.(int)
			if ev["ev"] == "Adopt" {
				adoptIO = n
			} else {
				posOf[n] = i // the last event of a multi page write wins
			}
		}
	}
	if adoptIO < 0 {
		return tr, nil, 0
	}
	inserts := map[int][]core.Event{}
	rp := simdisk.NewReplayer(nil, ops)
	contN := 0
	for {
		op, ok := rp.Step()
		if !ok {
			break
		}
		if op.Kind == "mark" || op.Idx < adoptIO {
			continue
		}
		pos, known := posOf[op.Idx]
		if !known {
			continue // size / mmap / read calls do not change the disk
		}
		pend := rp.Pending()
		n := len(pend)
		var masks []uint64
		full := uint64(1)<<uint(n) - 1
		if n <= b.MaxBits {
			for m := uint64(0); m <= full; m++ {
				masks = append(masks, m)
			}
		} else {
			masks = append(masks, 0, full)
			for i := 0; i < n; i++ {
				masks = append(masks, uint64(1)<<uint(i), full&^(uint64(1)<<uint(i)))
			}
			for i := 0; i < b.Random; i++ {
				masks = append(masks, rng.Uint64()&full)
			}
			// everything but a prefix / only a suffix (the header is usually last)
			masks = append(masks, full&^1, uint64(1)<<uint(n-1))
		}
		seen := map[string]bool{}
		try := func(img []byte, what string) {
			images++
			if b.Tick != nil {
				atomic.AddInt64(b.Tick, 1)
			}
			rec, f, _ := recoverImage(img, tr.Name+"-img")
			if f != nil {
				f.Close()
			}
			if !rec.ok {
				k := "fail:" + rec.err
				if !seen[k] {
					seen[k] = true
					inserts[pos] = append(inserts[pos], core.Event{"ev": "RecoverFailed", "io": op.Idx, "img": what, "err": rec.err})
				}
				return
			}
			if seen[rec.key] {
				return
			}
			seen[rec.key] = true
			inserts[pos] = append(inserts[pos], core.Event{"ev": "Recovered", "io": op.Idx, "img": what, "root": rec.root, "pages": rec.pages})
			contN++
			if b.ContEvery > 0 && contN%b.ContEvery == 0 {
				conts = append(conts, continuation(fmt.Sprintf("%s-cont-io%d-%s", tr.Name, op.Idx, what), img, rng))
			}
		}
		for _, m := range masks {
			try(rp.Image(m, -1), fmt.Sprintf("keep=%b", m))
		}
		// torn header write
		if n > 0 {
			last := pend[n-1]
			if last.Kind == simdisk.OpWrite && last.Len == fenv.HdrSize {
				for _, t := range b.Tears {
					if t < last.Len {
						try(rp.Image(full, t), fmt.Sprintf("tear=%d", t))
						try(rp.Image(uint64(1)<<uint(n-1), t), fmt.Sprintf("tear-only=%d", t))
					}
				}
			}
		}
	}
	out = &core.Trace{Name: tr.Name, Meta: tr.Meta}
	for i, ev := range tr.Events {
		out.Events = append(out.Events, ev)
		out.Events = append(out.Events, inserts[i]...)
	}
	return out, conts, images
}

// CheckC01: crash atomicity and durability.
func CheckC01(r *core.Run) {
	defer exploreTx(r)()
	r.Rule = "random histories on the simulated disk; (a) TLC evaluates CrashSafe (all subsets of un-synced writes, torn header) on the decoded real I/O after every write/sync; (b) at every I/O boundary crash images are enumerated (all subsets up to the tier bound, else none/all/each single lost/each single kept/random; byte tears of the header write), each is opened by the real code and the recovered logical state is judged by TxTrace.tla!Recovered against committed/in-flight; (c) a sample of recovered files runs a further transaction + reopen, judged as a trace of its own; distinct = distinct (history, crash point, recovered state) triples"
	n := r.Pick(14, 80)
	cfgs := baseCfgs(r, "c01", n, func(i int, c *HistCfg) {
		c.Txs = r.Pick(14, 30)
		c.KeepSmall = 24
		c.ReadAll = false
		c.ReopenPct = 5
		if i%4 == 2 {
			// open-time maintenance transactions (max-size update, release of free pages beyond a
			// reduced limit) are commits too: their crash points are explored like any other
			sizes := []uint64{64, 96, 128, 0, 200, 70}
			c.MaxPages = sizes[(i/4)%len(sizes)]
			c.KeepSmall = 60
			rng := rand.New(rand.NewSource(c.Seed + 991))
			c.OnTxEnd = func(e *fenv.Env, n int) {
				if rng.Intn(5) != 0 {
					return
				}
				nm := sizes[rng.Intn(len(sizes))] * uint64(e.PS)
				if err := e.Resize(nm, false); err != nil {
					panic(fmt.Sprintf("resize failed: %v", err))
				}
			}
		}
	})
	// directed: crash points of the open-time transactions of a shrinking max-size update
	// (header with the new limit, then the forced allocator commit that releases the free pages
	// beyond it) on files whose free list changed shape in the transactions before
	for k, v := range []struct {
		initMeta uint32
		max, newMax uint64
	}{{4, 200, 100}, {0, 200, 100}, {4, 160, 90}, {8, 200, 64}} {
		v := v
		cfgs = append(cfgs, HistCfg{Name: fmt.Sprintf("c01-shrink-%d", k), Seed: r.Seed*31 + int64(k), PageSize: 1024,
			MaxPages: v.max, InitMeta: v.initMeta, WALLimit: 1000, Txs: 0,
			Script: func(e *fenv.Env) {
				mustBegin(e, txfile.TxOptions{})
				ids, err := e.Alloc(int(v.max) - 50)
				if err != nil {
					e.Rollback(false)
					return
				}
				for i, id := range ids {
					if i%9 == 0 || i < 25 {
						e.Set(id, 4)
					}
				}
				e.SetRoot(ids[0])
				e.Commit()
				mustBegin(e, txfile.TxOptions{})
				for _, id := range ids[4:14] {
					e.Free(id)
				}
				for _, id := range ids[int(v.newMax)-30:] {
					e.Free(id)
				}
				e.Commit()
				mustBegin(e, txfile.TxOptions{})
				if got, err := e.Alloc(10); err == nil { // the low free pages are live again
					for _, id := range got {
						e.Set(id, 4)
					}
				}
				e.Commit()
				if err := e.Resize(v.newMax*1024, false); err != nil {
					panic(fmt.Sprintf("resize failed: %v", err))
				}
				mustBegin(e, txfile.TxOptions{})
				if got, err := e.Alloc(3); err == nil {
					for _, id := range got {
						e.Set(id, 4)
					}
				}
				e.Commit()
			}})
	}
	budget := crashBudget{MaxBits: r.Pick(5, 9), Random: r.Pick(4, 24), Tears: []int{1, 8, 33, 40, 79, 80, 83}, ContEvery: r.Pick(40, 25), Seed: r.Seed}
	if r.Thorough() {
		budget.Tears = nil
		for t := 1; t < fenv.HdrSize; t++ {
			budget.Tears = append(budget.Tears, t)
		}
	}
	main := make([]*core.Trace, len(cfgs))
	var conts []*core.Trace
	var mu sync.Mutex
	var wg sync.WaitGroup
	sem := make(chan struct{}, 14)
	total := 0
	for i, c := range cfgs {
		wg.Add(1)
		sem <- struct{}{}
		go func(i int, c HistCfg) {
			defer wg.Done()
			defer func() { <-sem }()
			done := make(chan struct{})
			c.Tick = new(int64)
			go func() {
				defer close(done)
				tr, env := RunHistory(c)
				b := budget
				b.Seed += int64(i)
				b.Tick = c.Tick
				t2, cs, images := crashExplore(r, tr, env, b)
				mu.Lock()
				main[i] = t2
				conts = append(conts, cs...)
				total += images
				mu.Unlock()
			}()
			switch core.WatchRun(c.Tick, done, 120*time.Second, 60*time.Minute) {
			case "hang": // neither an operation nor the opening of a crash image returned for 2 minutes
				mu.Lock()
				main[i] = &core.Trace{Name: c.Name, Meta: c.String(), Events: []core.Event{{"ev": "Hang"}}}
				mu.Unlock()
			case "timeout":
				r.Break("crash exploration of %s did not finish within the budget (it kept making progress)", c.Name)
			}
		}(i, c)
	}
	wg.Wait()
	nrec := 0
	for _, t := range main {
		if t == nil {
			continue
		}
		for _, ev := range t.Events {
			if ev["ev"] == "Recovered" || ev["ev"] == "RecoverFailed" {
				nrec++
				r.AddDistinct(fmt.Sprint(t.Name, ev["io"], ev["root"], ev["pages"], ev["err"]))
			}
		}
	}
	r.AddEvals(int64(total))
	r.SetExtra("crash_images_opened_by_real_code", total)
	r.SetExtra("distinct_recovery_observations", nrec)
	r.SetExtra("continuation_traces", len(conts))
	sampleTrace(r, main)
	for _, t := range main {
		if t == nil {
			continue
		}
		for _, ev := range t.Events {
			if ev["ev"] == "Recovered" {
				r.AddSample(map[string]interface{}{"crash_observation": ev})
				goto judged
			}
		}
	}
judged:
	judgeTx(r, main, reportOpts{})
	// continuation traces: every deviation means the recovered file is not fully operational
	judgeTx(r, conts, reportOpts{Mine: []string{"C03", "C04", "C07", "C10", "C11"}, Context: func(core.Reject) string { return ":recovered-file" }})
	// "the last transaction whose Commit returned success": a Commit must not report success when
	// one of its writes or syncs failed. A sample of the fault runs of C08 (every run ends with a
	// plain reopen judged by Recovered); deviations inside the situations of C08's known findings
	// are reported there.
	ftraces, fjobs := faultRuns(r, "c01-fault", r.Pick(2, 6), r.Pick(16, 60), false)
	r.SetExtra("fault_runs", len(fjobs))
	for _, t := range ftraces {
		r.AddDistinct(fmt.Sprint(t.Meta))
		r.AddEvals(int64(len(t.Events)))
	}
	judgeTx(r, ftraces, reportOpts{Skip: func(rj core.Reject) bool { return faultContext(rj) != "" }})
}
