package checks

import (
	"fmt"
	"math/rand"
	"strings"
	"sync"
	"sync/atomic"
	"time"

	txfile "github.com/elastic/go-txfile"

	"verif/core"
	"verif/fenv"
	"verif/simdisk"
)

// C02: snapshot isolation. The interleavings are the paths of the LockReplay
// state graph (TLC as generator: every transition of readers / writers /
// closer incl. the commit steps). They are replayed on the real File with real
// data: write transactions allocate, overwrite, free, flush and checkpoint
// pages; every reader reads its whole snapshot after every step of the path.
// The recorded execution is judged by TxTrace.tla (ReadR against the snapshot
// taken at BeginR, SwitchExclusive, SharedMatchesReaders).

type isoReplayer struct {
	e      *fenv.Env
	rng    *rand.Rand
	procs  map[string]*core.Proc
	rds    map[string]*fenv.Reader
	snap   map[string][]uint64 // pages of the snapshot of each reader
	failMu sync.Mutex
	fail   bool
	wbody  int
}

func newIsoReplayer(name string, seed int64) (*isoReplayer, error) {
	ir := &isoReplayer{procs: map[string]*core.Proc{}, rds: map[string]*fenv.Reader{}, snap: map[string][]uint64{}, rng: rand.New(rand.NewSource(seed))}
	ir.e = fenv.New(name, txfile.Options{PageSize: 1024, MaxSize: []uint64{0, 64 * 1024}[seed%2], InitMetaArea: []uint32{0, 4}[(seed/2)%2]})
	ir.e.Disk.Fault = func(kind string, nth, idx int) simdisk.FaultMode {
		ir.failMu.Lock()
		defer ir.failMu.Unlock()
		if ir.fail && (kind == simdisk.OpWrite || kind == simdisk.OpSync) {
			return simdisk.FailBefore
		}
		return simdisk.NoFault
	}
	if err := ir.e.Open(nil, 0); err != nil {
		return nil, err
	}
	// committed prefix: some pages, some of them overwritten (overwrite mapping in place)
	e := ir.e
	if err := e.Begin(txfile.TxOptions{WALLimit: 1000}); err != nil {
		return nil, err
	}
	ids, _ := e.Alloc(5)
	for _, id := range ids {
		e.Set(id, 4)
	}
	e.SetRoot(ids[0])
	e.Commit()
	e.Begin(txfile.TxOptions{WALLimit: 1000})
	e.Set(ids[1], 4)
	e.Set(ids[2], 2)
	e.Commit()
	return ir, nil
}

func (ir *isoReplayer) proc(name string) *core.Proc {
	p := ir.procs[name]
	if p == nil {
		p = core.Spawn(name)
		ir.procs[name] = p
	}
	return p
}

func (ir *isoReplayer) setFail(b bool) {
	ir.failMu.Lock()
	ir.fail = b
	ir.failMu.Unlock()
}

func (ir *isoReplayer) expect(p *core.Proc, point string) string {
	got, ok := p.Wait(lockTimeout)
	if !ok {
		return fmt.Sprintf("timeout waiting for %s to reach %s", p.Name, point)
	}
	if got != point {
		return fmt.Sprintf("%s reached %s, expected %s", p.Name, got, point)
	}
	return ""
}

// body runs the operations of a write transaction (in the writer's goroutine).
func (ir *isoReplayer) body() {
	e, rng := ir.e, ir.rng
	live := txLive(e)
	n := 2 + rng.Intn(4)
	for i := 0; i < n; i++ {
		switch rng.Intn(7) {
		case 0, 1:
			if ids, err := e.Alloc(1 + rng.Intn(2)); err == nil {
				for _, id := range ids {
					e.Set(id, 4)
				}
			}
		case 2, 3:
			if len(live) > 0 {
				id := live[rng.Intn(len(live))]
				if !e.TxFlush[id] && !e.TxFreed[id] {
					e.Set(id, 1+rng.Intn(4)) // overwrite of a committed page
				}
			}
		case 4:
			if len(live) > 1 {
				id := live[rng.Intn(len(live))]
				if !e.TxDirty[id] && !e.TxFreed[id] && id != e.TxRoot {
					e.Free(id)
				}
			}
		case 5:
			e.Flush()
		case 6:
			e.Checkpoint()
		}
	}
}

func (ir *isoReplayer) step(s lockStep) string {
	e := ir.e
	p := ir.proc(s.Proc)
	name := s.Proc
	switch s.Act {
	case "RCall":
		p.Do(func() {
			r, err := e.BeginRead(name, false)
			if err == nil {
				ir.failMu.Lock()
				ir.rds[name] = r
				ir.failMu.Unlock()
			}
		}, "begin/request")
		if x := ir.expect(p, "begin/request"); x != "" {
			return x
		}
		p.Release("begin/locked")
	case "RAcq":
		if x := ir.expect(p, "begin/locked"); x != "" {
			return x
		}
		// pages of the snapshot: the committed state at this moment (driver bookkeeping)
		ir.snap[name] = sortedKeys(e.Live)
		p.Release()
		return ir.expect(p, "ret")
	case "RUnlock":
		p.Do(func() { e.EndRead(ir.rds[name], false); delete(ir.rds, name) })
		return ir.expect(p, "ret")
	case "WCall":
		p.Do(func() { e.Begin(txfile.TxOptions{WALLimit: []uint{1000, 2}[ir.rng.Intn(2)]}) }, "begin/request")
		if x := ir.expect(p, "begin/request"); x != "" {
			return x
		}
		p.Release("begin/locked")
	case "WAcq":
		if x := ir.expect(p, "begin/locked"); x != "" {
			return x
		}
		p.Release()
		if x := ir.expect(p, "ret"); x != "" {
			return x
		}
		p.Do(ir.body)
		return ir.expect(p, "ret")
	case "WRollback":
		p.Do(func() { e.Rollback(ir.rng.Intn(2) == 0) })
		return ir.expect(p, "ret")
	case "WPending":
		p.Do(func() { e.Commit() }, "commit/pending")
		return ir.expect(p, "commit/pending")
	case "WFail":
		ir.setFail(true)
		p.Release("commit/failed")
		x := ir.expect(p, "commit/failed")
		ir.setFail(false)
		return x
	case "WFailClose":
		p.Release()
		return ir.expect(p, "ret")
	case "WXCall":
		p.Release("commit/alloc-switched")
		if x := ir.expect(p, "commit/alloc-switched"); x != "" {
			return x
		}
		p.Release("commit/exclusive")
	case "WXAcq":
		return ir.expect(p, "commit/exclusive")
	case "WSwitch":
		p.Release("commit/done")
		return ir.expect(p, "commit/done")
	case "WUnpend":
		p.Release("tx/close")
		return ir.expect(p, "tx/close")
	case "WDone":
		p.Release()
		return ir.expect(p, "ret")
	case "CCall", "CAcq", "CPending", "CXAcq", "CFinish", "Park":
		return "skip"
	default:
		return "unknown action " + s.Act
	}
	return ""
}

// readAll lets every active reader read its whole snapshot.
func (ir *isoReplayer) readAll() string {
	for name, r := range ir.rds {
		p := ir.proc(name)
		r := r
		// a page is cached by the transaction once it was touched: read a random part of the
		// snapshot only, so that first touches happen at every point of the path
		var pages []uint64
		for _, id := range ir.snap[name] {
			if ir.rng.Intn(3) == 0 {
				pages = append(pages, id)
			}
		}
		p.Do(func() {
			for _, id := range pages {
				ir.e.Read(r, id)
			}
		})
		if x := ir.expect(p, "ret"); x != "" {
			return x
		}
	}
	return ""
}

func (ir *isoReplayer) run(steps []lockStep) {
	for i, s := range steps {
		if s.Act == "Park" {
			time.Sleep(200 * time.Microsecond)
			continue
		}
		if strings.HasPrefix(s.Act, "C") {
			break // File.Close is covered by C09; stop this path here
		}
		if x := ir.step(s); x != "" {
			ir.e.Emit(core.Event{"ev": "Stuck", "p": s.Proc, "wanted": s.Act, "problem": x, "step": i})
			return
		}
		if x := ir.readAll(); x != "" {
			ir.e.Emit(core.Event{"ev": "Stuck", "p": "reader", "problem": x, "step": i})
			return
		}
	}
}

func (ir *isoReplayer) cleanup() {
	ir.setFail(false)
	for _, p := range ir.procs {
		p.Drain()
	}
}

// CheckC02: snapshot isolation.
func CheckC02(r *core.Run) {
	defer exploreTx(r)()
	r.Rule = "interleavings = the maximal paths of the LockReplay state graph (every transition of 2 readers x 2 writers incl. all commit steps, blocked and woken acquisitions) generated by TLC; each path is replayed on a real File with real data (allocations, overwrites of committed pages, frees, Flush, CheckpointWAL, failing commits) behind goroutine gates, every active reader reads its whole snapshot after every step; TxTrace.tla judges every read against the snapshot taken at BeginR, the exclusivity of the in-memory switch and the reader count; distinct = replayed paths"
	r.Assume("data-race freedom is not decided by the specification; a race-detector build of a free-running reader/writer stress is executed in addition")
	gen, err := core.RunTLC(r.Scratch, core.TLCOpts{Module: "LockReplay", Config: "LockReplay_q.cfg", Workers: 1, Timeout: 20 * time.Minute, HeapMB: 4096})
	if err != nil || !gen.OK {
		r.Break("LockReplay generator failed: %v %s", err, tail(gen))
		return
	}
	var paths []string
	for _, p := range gen.Prints {
		if strings.HasPrefix(p, "@P ") {
			paths = append(paths, strings.TrimPrefix(p, "@P "))
		}
	}
	r.States += gen.Distinct
	r.Transitions += gen.Generated
	gen.Cleanup()
	max := maximalPaths(paths)
	// drop the parts after File.Close is called; dedupe
	seen := map[string]bool{}
	var sel []string
	for _, p := range max {
		if i := strings.Index(p, "CCall:"); i >= 0 {
			p = p[:i]
		}
		if p == "" || seen[p] || !strings.Contains(p, "RAcq") || !strings.Contains(p, "WAcq") {
			continue
		}
		seen[p] = true
		sel = append(sel, p)
	}
	limit := r.Pick(300, 100000)
	if len(sel) > limit {
		rng := rand.New(rand.NewSource(r.Seed))
		rng.Shuffle(len(sel), func(i, j int) { sel[i], sel[j] = sel[j], sel[i] })
		sel = sel[:limit]
	}
	r.SetExtra("replay_paths_total", len(max))
	r.SetExtra("replay_paths_with_readers_and_writers", len(sel))
	traces := make([]*core.Trace, len(sel))
	var wg sync.WaitGroup
	sem := make(chan struct{}, 8)
	for i, ps := range sel {
		wg.Add(1)
		sem <- struct{}{}
		go func(i int, ps string) {
			defer wg.Done()
			defer func() { <-sem }()
			name := fmt.Sprintf("c02-path-%d", i)
			ir, err := newIsoReplayer(name, r.Seed+int64(i))
			if err != nil {
				r.Break("c02: setup failed: %v", err)
				return
			}
			func() {
				defer func() {
					if p := recover(); p != nil {
						ir.e.Emit(core.Event{"ev": "Panic", "msg": fmt.Sprint(p), "stack": core.ShortStack()})
					}
				}()
				ir.run(parseLockPath(ps))
			}()
			ir.cleanup()
			traces[i] = &core.Trace{Name: name, Meta: ps, Events: ir.e.Events()}
		}(i, ps)
	}
	wg.Wait()
	for _, t := range traces {
		if t != nil {
			r.AddDistinct(fmt.Sprint(t.Meta))
			r.AddEvals(int64(len(t.Events)))
		}
	}
	if len(sel) > 0 {
		r.AddSample(map[string]interface{}{"replayed_path": sel[0]})
	}
	sampleTrace(r, traces)
	judgeTx(r, traces, reportOpts{Mine: []string{"C03"}})
	runRaceBuild(r)
}

// raceC02 is the free-running reader/writer stress executed by the race-detector build.
// Pages are never freed; readers only touch pages that were committed before they began
// (high-water mark published after Commit returned), so every report is a race inside the
// library, not a misuse by the driver.
func raceC02() {
	e := fenv.New("c02-race", txfile.Options{PageSize: 1024, MaxSize: 1024 * 1024})
	e.Record = false
	if err := e.Open(nil, 0); err != nil {
		return
	}
	f := e.F
	var pages atomic.Value // []txfile.PageID: user pages of all commits that have returned
	pages.Store([]txfile.PageID{})
	var wg sync.WaitGroup
	stop := make(chan struct{})
	for w := 0; w < 2; w++ {
		wg.Add(1)
		go func(w int) {
			defer wg.Done()
			rng := rand.New(rand.NewSource(int64(w)))
			for i := 0; i < 150; i++ {
				tx, err := f.Begin()
				if err != nil {
					return
				}
				old := pages.Load().([]txfile.PageID)
				next := append([]txfile.PageID{}, old...)
				if pgs, err := tx.AllocN(1 + rng.Intn(3)); err == nil {
					for _, pg := range pgs {
						pg.SetBytes(make([]byte, 1024))
						next = append(next, pg.ID())
					}
				}
				for _, id := range old {
					if rng.Intn(4) == 0 {
						if pg, err := tx.Page(id); err == nil {
							pg.SetBytes(make([]byte, 512))
						}
					}
				}
				if rng.Intn(4) == 0 {
					tx.Flush()
				}
				if rng.Intn(5) == 0 {
					tx.Rollback()
				} else if tx.Commit() == nil {
					pages.Store(next) // only one write transaction at a time: no lost update
				}
			}
		}(w)
	}
	for rd := 0; rd < 3; rd++ {
		wg.Add(1)
		go func() {
			defer wg.Done()
			for {
				select {
				case <-stop:
					return
				default:
				}
				tx, err := f.BeginReadonly()
				if err != nil {
					return
				}
				for _, id := range pages.Load().([]txfile.PageID) {
					if pg, err := tx.Page(id); err == nil {
						if b, err := pg.Bytes(); err == nil && len(b) > 0 {
							_ = b[0] + b[len(b)-1]
						}
					}
				}
				tx.Close()
			}
		}()
	}
	go func() {
		time.Sleep(3 * time.Second)
		close(stop)
	}()
	wg.Wait()
	f.Close()
}
