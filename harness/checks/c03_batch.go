package checks

import (
	"fmt"
	"time"

	txfile "github.com/elastic/go-txfile"

	"verif/core"
	"verif/fenv"
)

// batchScenarios: the background writer executes queued page writes in batches
// sorted by page id. With the disk stalled, the flushed pages of a rolled back
// transaction and the pages of the next transaction (same ids, allocated again)
// end up in one batch of >= 13 messages with duplicate ids: the later write
// has to win. Also: manual checkpoint followed by an overwrite of the
// checkpointed page in the same batch.
func batchScenarios() []*core.Trace {
	var out []*core.Trace
	for _, n := range []int{13, 16, 40} {
		n := n
		out = append(out, scenario(fmt.Sprintf("c03-batch-%d", n), txfile.Options{PageSize: 1024, MaxSize: 1024 * 1024}, false, func(e *fenv.Env) {
			// one committed page so that the file is not empty
			mustBegin(e, txfile.TxOptions{})
			first, _ := e.Alloc(1)
			e.Set(first[0], 4)
			e.Commit()

			e.Disk.Stall()
			mustBegin(e, txfile.TxOptions{})
			ids, _ := e.Alloc(n)
			for _, id := range ids {
				e.Set(id, 4)
			}
			e.Flush() // queued behind the stalled disk
			e.Rollback(false)

			mustBegin(e, txfile.TxOptions{})
			ids2, _ := e.Alloc(n) // the same ids again
			for _, id := range ids2 {
				e.Set(id, 4)
			}
			done := make(chan struct{})
			go func() {
				defer close(done)
				e.Commit()
			}()
			time.Sleep(20 * time.Millisecond) // the commit has queued its writes behind the stalled ones
			e.Disk.Release()
			select {
			case <-done:
			case <-time.After(60 * time.Second):
				e.Disk.Release()
				<-done
			}
			e.ReadAll("after-batch")
			if err := e.Reopen(txfile.Options{}); err == nil {
				e.ReadAll("after-reopen")
			}
		}))
	}
	// checkpoint + overwrite of the same page id in one batch
	out = append(out, scenario("c03-batch-checkpoint", txfile.Options{PageSize: 1024, MaxSize: 1024 * 1024}, false, func(e *fenv.Env) {
		mustBegin(e, txfile.TxOptions{WALLimit: 1000})
		ids, _ := e.Alloc(20)
		for _, id := range ids {
			e.Set(id, 4)
		}
		e.Commit()
		mustBegin(e, txfile.TxOptions{WALLimit: 1000})
		for _, id := range ids {
			e.Set(id, 4) // every page gets an overwrite page
		}
		e.Commit()
		e.Disk.Stall()
		mustBegin(e, txfile.TxOptions{WALLimit: 1000})
		e.Checkpoint() // copies the 20 overwrite pages back (20 queued writes)
		done := make(chan struct{})
		go func() {
			defer close(done)
			e.Commit()
		}()
		time.Sleep(20 * time.Millisecond)
		e.Disk.Release()
		select {
		case <-done:
		case <-time.After(60 * time.Second):
		}
		e.ReadAll("after-checkpoint")
		mustBegin(e, txfile.TxOptions{WALLimit: 1000})
		for _, id := range ids[:10] {
			e.Set(id, 2)
		}
		e.Commit()
		e.ReadAll("after-overwrite")
	}))
	return out
}
