package checks

import (
	"fmt"

	txfile "github.com/elastic/go-txfile"

	"verif/core"
	"verif/fenv"
)

// c04Scenarios: the data area of a bounded file (with and without a pre-sized meta area) is
// filled completely by user pages allocated from the end of the file; transactions with the
// overflow area then need file-internal pages (overwrite pages, mapping and list pages): they
// have to come from beyond the limit, never from the ids of live pages.  Followed by frees,
// re-allocation, reopen; AllocOK / Ownership / Partition and every read are judged by TxTrace.
func c04Scenarios(r *core.Run) []*core.Trace {
	var out []*core.Trace
	ps := uint64(1024)
	for _, maxPages := range []uint64{64, 72} {
		for _, initMeta := range []uint32{0, 2, 4, 8} {
			for _, batch := range []int{1, 7} {
				maxPages, initMeta, batch := maxPages, initMeta, batch
				name := fmt.Sprintf("c04-full-%d-meta%d-by%d", maxPages, initMeta, batch)
				out = append(out, scenario(name, txfile.Options{PageSize: uint32(ps), MaxSize: maxPages * ps, InitMetaArea: initMeta}, false, func(e *fenv.Env) {
					mustBegin(e, txfile.TxOptions{})
					var ids []uint64
					n := batch
					for len(ids) < 300 {
						got, err := e.Alloc(n)
						if err != nil || len(got) == 0 {
							if n == 1 {
								break
							}
							n = 1
							continue
						}
						for _, id := range got {
							e.Set(id, 4)
						}
						ids = append(ids, got...)
					}
					if len(ids) < 8 {
						e.Rollback(false)
						return
					}
					e.SetRoot(ids[0])
					if e.Commit() != nil {
						return
					}
					e.ReadAll("filled")
					for round := 0; round < 4; round++ {
						mustBegin(e, txfile.TxOptions{EnableOverflowArea: true, WALLimit: 1000})
						for k := 0; k < 2+round; k++ {
							e.Set(ids[(3*round+k)%len(ids)], 4)
						}
						if round == 2 {
							e.Alloc(1) // the file is full: must fail, not hand out a page in use
						}
						e.Commit()
						e.ReadAll(fmt.Sprintf("ovf%d", round))
					}
					if err := e.Reopen(txfile.Options{}); err != nil {
						panic("reopen failed")
					}
					e.ReadAll("reopened")
					// free a few pages, allocate again (recycled ids only), overwrite with overflow once more
					mustBegin(e, txfile.TxOptions{})
					for _, id := range ids[len(ids)-5:] {
						e.Free(id)
					}
					e.Commit()
					mustBegin(e, txfile.TxOptions{EnableOverflowArea: true})
					if got, err := e.Alloc(3); err == nil {
						for _, id := range got {
							e.Set(id, 4)
						}
					}
					e.Set(ids[1], 4)
					e.Commit()
					e.ReadAll("end")
				}))
			}
		}
	}
	return out
}
