package checks

import (
	"fmt"
	"math/rand"
	"sync"
	"sync/atomic"
	"time"

	txfile "github.com/elastic/go-txfile"
	"github.com/elastic/go-txfile/pq"

	"verif/core"
	"verif/qenv"
	"verif/simdisk"
)

type drained struct {
	ok      bool
	err     string
	sizes   []int
	cid0    int
	pending int
	key     string
}

// drainImage opens a crash image with the real code (file, delegate, queue) and
// reads everything the queue delivers.
func drainImage(img []byte, name string) (res drained) {
	defer func() {
		if p := recover(); p != nil {
			res = drained{ok: false, err: "panic: " + fmt.Sprint(p)}
		}
	}()
	disk := simdisk.FromImage(name, img)
	f, err := txfile.VerifOpenWith(disk, txfile.Options{})
	if err != nil {
		return drained{err: "open: " + err.Error()}
	}
	defer f.Close()
	d, err := pq.NewStandaloneDelegate(f)
	if err != nil {
		return drained{err: "delegate: " + err.Error()}
	}
	q, err := pq.New(d, pq.Settings{})
	if err != nil {
		return drained{err: "queue: " + err.Error()}
	}
	defer q.Close()
	p, err := q.Pending()
	if err != nil {
		return drained{err: "pending: " + err.Error()}
	}
	res.pending = p
	r := q.Reader()
	if err := r.Begin(); err != nil {
		return drained{err: "begin: " + err.Error()}
	}
	defer r.Done()
	res.ok, res.cid0 = true, -1
	sizes := []int{}
	buf := make([]byte, 1<<16)
	for n := 0; n < 100000; n++ {
		size, err := r.Next()
		if err != nil {
			return drained{err: "next: " + err.Error()}
		}
		if size <= 0 {
			break
		}
		off, cid := 0, -1
		for off < size {
			k, err := r.Read(buf)
			if err != nil {
				return drained{err: "read: " + err.Error()}
			}
			if k <= 0 {
				res.ok = false
				break
			}
			if off == 0 {
				cid = int((uint64(buf[0]) * 43) % 256) // 43 = 131^-1 mod 256
				if len(sizes) == 0 {
					res.cid0 = cid
				} else if cid != (res.cid0+len(sizes))%256 {
					res.ok = false // not the next event in order
				}
			}
			for i := 0; i < k; i++ {
				if buf[i] != qenv.EventByte(uint64(cid), off+i) {
					res.ok = false
				}
			}
			off += k
		}
		sizes = append(sizes, size)
	}
	res.sizes = sizes
	res.key = fmt.Sprint(res.ok, res.cid0, res.pending, sizes)
	return res
}

// queueCrashExplore enumerates crash images of a finished queue history and
// inserts the observations of the real recovery into the trace.
func queueCrashExplore(tr *core.Trace, env *qenv.Env, b crashBudget) (*core.Trace, int) {
	rng := rand.New(rand.NewSource(b.Seed))
	ops := env.Disk.Ops()
	posOf := map[int]int{}
	for i, ev := range tr.Events {
		if ev["ev"] == "IO" {
			posOf[ev["io"].(int)] = i
		}
	}
	inserts := map[int][]core.Event{}
	rp := simdisk.NewReplayer(nil, ops)
	images := 0
	for {
		op, ok := rp.Step()
		if !ok {
			break
		}
		if op.Kind == "mark" || op.Idx < env.QueueIO0 {
			continue
		}
		pos, known := posOf[op.Idx]
		if !known {
			continue
		}
		pend := rp.Pending()
		n := len(pend)
		full := uint64(1)<<uint(n) - 1
		var masks []uint64
		if n <= b.MaxBits {
			for m := uint64(0); m <= full; m++ {
				masks = append(masks, m)
			}
		} else {
			masks = append(masks, 0, full, full&^1, uint64(1)<<uint(n-1))
			for i := 0; i < n; i++ {
				masks = append(masks, uint64(1)<<uint(i), full&^(uint64(1)<<uint(i)))
			}
			for i := 0; i < b.Random; i++ {
				masks = append(masks, rng.Uint64()&full)
			}
		}
		seen := map[string]bool{}
		for _, m := range masks {
			images++
			if b.Tick != nil {
				atomic.AddInt64(b.Tick, 1)
			}
			res := drainImage(rp.Image(m, -1), tr.Name+"-img")
			what := fmt.Sprintf("keep=%b", m)
			if res.err != "" {
				if !seen["e:"+res.err] {
					seen["e:"+res.err] = true
					inserts[pos] = append(inserts[pos], core.Event{"ev": "CrashFailed", "io": op.Idx, "img": what, "err": res.err})
				}
				continue
			}
			if seen[res.key] {
				continue
			}
			seen[res.key] = true
			inserts[pos] = append(inserts[pos], core.Event{"ev": "CrashDrain", "io": op.Idx, "img": what,
				"sizes": res.sizes, "cid0": res.cid0, "ok": res.ok, "pending": res.pending})
		}
	}
	out := &core.Trace{Name: tr.Name, Meta: tr.Meta}
	for i, ev := range tr.Events {
		out.Events = append(out.Events, ev)
		out.Events = append(out.Events, inserts[i]...)
	}
	return out, images
}

// CheckC06: queue durability.
func CheckC06(r *core.Run) {
	defer explorePQ(r)()
	r.Rule = "producer/consumer histories with close+reopen points; at every I/O boundary of the underlying file crash images are enumerated (all subsets of the un-synced writes up to the tier bound, else none/all/each single lost/each single kept/random), each is opened by the real code (file, delegate, queue) and drained with the real Reader; PQTrace.tla!CrashDrain requires the delivered events to be exactly flushed minus ACKed - or that with the one flush/ACK transaction in its commit applied completely -, in order, byte-identical, starting at the first un-ACKed event; reopen points are judged by CloseFlushes/ReopenPending/NoRedelivery; distinct = (history, crash point, drained state)"
	n := r.Pick(12, 60)
	cfgs := pqCfgs(r, "c06", n, func(i int, c *QCfg) {
		c.Steps = r.Pick(60, 120)
		c.ReopenPct = 8
		c.BigPct = 25
		if c.FillUp {
			// the file really fills up: flushes fail and are retried after ACKs, then reopen / crash
			c.Steps = r.Pick(160, 300)
			c.BigPct = 55
		} else {
			c.LagMax = 12
		}
		if i%2 == 1 {
			c.FaultPct = 30
		}
	})
	budget := crashBudget{MaxBits: r.Pick(5, 9), Random: r.Pick(4, 24), Seed: r.Seed}
	traces := make([]*core.Trace, len(cfgs))
	total := 0
	var mu sync.Mutex
	var wg sync.WaitGroup
	sem := make(chan struct{}, 14)
	for i, c := range cfgs {
		wg.Add(1)
		sem <- struct{}{}
		go func(i int, c QCfg) {
			defer wg.Done()
			defer func() { <-sem }()
			done := make(chan struct{})
			c.Tick = new(int64)
			var henv *qenv.Env
			c.EnvOut = &henv
			go func() {
				defer close(done)
				tr, env := runQueueHistoryIO(c)
				b := budget
				b.Seed += int64(i)
				b.Tick = c.Tick
				t2, images := queueCrashExplore(tr, env, b)
				mu.Lock()
				traces[i] = t2
				total += images
				mu.Unlock()
			}()
			switch core.WatchRun(c.Tick, done, 120*time.Second, 60*time.Minute) {
			case "hang": // neither an operation nor the draining of a crash image returned for 2 minutes
				var evs []core.Event
				if henv != nil { // keep what was recorded up to there
					evs = henv.Events()
				}
				mu.Lock()
				traces[i] = &core.Trace{Name: c.Name, Meta: c.String(), Events: append(evs, core.Event{"ev": "Hang"})}
				mu.Unlock()
			case "timeout":
				r.Break("crash exploration of %s did not finish within the budget (it kept making progress)", c.Name)
				mu.Lock()
				traces[i] = &core.Trace{Name: c.Name, Meta: c.String()}
				mu.Unlock()
			}
		}(i, c)
	}
	wg.Wait()
	nobs := 0
	for _, t := range traces {
		for _, ev := range t.Events {
			if ev["ev"] == "CrashDrain" || ev["ev"] == "CrashFailed" {
				nobs++
				r.AddDistinct(fmt.Sprint(t.Name, ev["io"], ev["sizes"], ev["cid0"], ev["err"]))
				if nobs == 40 {
					r.AddSample(map[string]interface{}{"crash_observation": ev, "history": t.Meta})
				}
			}
		}
	}
	r.AddEvals(int64(total))
	r.SetExtra("crash_images_opened_by_real_code", total)
	r.SetExtra("distinct_crash_observations", nobs)
	pqSample(r, traces)
	judgePQ(r, traces, "C05")
}

func runQueueHistoryIO(c QCfg) (*core.Trace, *qenv.Env) {
	c.RecordIO = true
	return RunQueueHistory(c)
}
