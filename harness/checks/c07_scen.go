package checks

import (
	"fmt"

	txfile "github.com/elastic/go-txfile"

	"verif/core"
	"verif/fenv"
	"verif/simdisk"
)

// c07Scenarios reaches the abort paths random histories rarely hit: a full
// bounded file whose meta area can only grow into the overflow area (or by
// taking pages from the data area), followed by Rollback / Close / a failing
// commit.  RollbackExact of TxTrace.tla compares the complete projection with
// the one at Begin.
func c07Scenarios(r *core.Run) []*core.Trace {
	var out []*core.Trace
	ps := uint32(1024)
	for _, maxPages := range []uint64{64, 65, 80} {
		for _, how := range []string{"rollback", "close", "commitfail"} {
			for _, ovf := range []bool{true, false} {
				maxPages, how, ovf := maxPages, how, ovf
				name := fmt.Sprintf("c07-full-%d-%s-ovf%v", maxPages, how, ovf)
				out = append(out, scenario(name, txfile.Options{PageSize: ps, MaxSize: maxPages * uint64(ps)}, false, func(e *fenv.Env) {
					// fill the data area completely
					mustBegin(e, txfile.TxOptions{})
					var ids []uint64
					for {
						n, err := e.Alloc(1)
						if err != nil || len(n) == 0 {
							break
						}
						e.Set(n[0], 4)
						ids = append(ids, n[0])
						if len(ids) > 200 {
							break
						}
					}
					if len(ids) > 0 {
						e.SetRoot(ids[0])
					}
					if e.Commit() != nil || len(ids) < 4 {
						return
					}
					for round := 0; round < 3; round++ {
						// overwrite committed pages: the WAL mapping and the new free list need
						// meta pages that only the overflow area (or nothing) can supply
						mustBegin(e, txfile.TxOptions{EnableOverflowArea: ovf})
						k := 3 + 2*round
						if k > len(ids) {
							k = len(ids)
						}
						for _, id := range ids[:k] {
							e.Set(id, 4)
						}
						if round == 1 {
							e.Free(ids[len(ids)-1])
						}
						e.Flush()
						switch how {
						case "rollback":
							e.Rollback(false)
						case "close":
							e.Rollback(true)
						case "commitfail":
							// the first write of the commit fails (not the final sync: see C08)
							n := 0
							e.Disk.Fault = func(op string, nth, idx int) simdisk.FaultMode {
								if op != "w" {
									return simdisk.NoFault
								}
								n++
								if n == 1 {
									return simdisk.FailBefore
								}
								return simdisk.NoFault
							}
							e.Emit(core.Event{"ev": "Note", "what": "fault-armed", "kind": "w", "k": 0, "burst": 1})
							e.Commit()
							e.Disk.Fault = nil
						}
						rd, err := e.BeginRead(fmt.Sprintf("r%d", round), true)
						if err == nil {
							for _, id := range ids {
								e.Read(rd, id)
							}
							e.EndRead(rd, true)
						}
					}
					// a transaction that commits after the aborted ones (its mapping and list pages may
					// lie in the overflow area, beyond the data area), then further aborted ones: the
					// committed state - including those internal pages - has to survive them
					mustBegin(e, txfile.TxOptions{EnableOverflowArea: ovf, WALLimit: 1000})
					e.Set(ids[1], 4)
					e.Set(ids[2], 4)
					e.Commit()
					for k := 0; k < 2; k++ {
						mustBegin(e, txfile.TxOptions{EnableOverflowArea: k == 1})
						e.Set(ids[3+k], 4)
						if k == 1 {
							e.Flush()
						}
						e.Rollback(k == 0)
						e.ReadAll(fmt.Sprintf("after-abort-%d", k))
					}
					reopenRead(e, "ro", ids)
				}))
			}
		}
	}
	return out
}
