package checks

import (
	"fmt"
	"sync"
	"time"

	txfile "github.com/elastic/go-txfile"

	"verif/core"
	"verif/fenv"
	"verif/simdisk"
)

// faultPlan: all I/O calls with global index in [At, At+Burst) fail.
type faultPlan struct {
	At, Burst int
	Short     bool // writes: short write then error (else error before effect)
}

func (p faultPlan) String() string {
	return fmt.Sprintf("fail-io[%d,+%d) short=%v", p.At, p.Burst, p.Short)
}

// runFaultHistory re-runs a history with a fault plan; afterwards the file is
// closed and reopened and its logical state is recorded.
func runFaultHistory(c HistCfg, plan *faultPlan) (*core.Trace, []simdisk.Op) {
	name := c.Name
	if plan != nil {
		name = fmt.Sprintf("%s@%d+%d", c.Name, plan.At, plan.Burst)
	}
	var env *fenv.Env
	var tr *core.Trace
	done := make(chan struct{})
	cc := c
	cc.Name = name
	go func() {
		defer close(done)
		tr, env = runHistoryWith(cc, func(e *fenv.Env) {
			if plan == nil {
				return
			}
			e.Disk.Fault = func(kind string, nth, idx int) simdisk.FaultMode {
				if idx >= plan.At && idx < plan.At+plan.Burst {
					if kind == simdisk.OpWrite && plan.Short {
						return simdisk.ShortWrite
					}
					return simdisk.FailBefore
				}
				return simdisk.NoFault
			}
		}, func(e *fenv.Env) {
			// after the history: read everything, close, reopen plainly, record what the file shows
			if e.F != nil && e.Tx == nil {
				e.ReadAll("final")
			}
			e.Close()
			_, img := e.Disk.Snapshot()
			vol, _ := e.Disk.Snapshot()
			_ = img
			rec, f, _ := recoverImage(vol, name+"-reopen")
			if f != nil {
				f.Close()
			}
			if rec.ok {
				e.Emit(core.Event{"ev": "Recovered", "img": "plain-reopen", "root": rec.root, "pages": rec.pages})
			} else {
				e.Emit(core.Event{"ev": "RecoverFailed", "img": "plain-reopen", "err": rec.err})
			}
		})
	}()
	select {
	case <-done:
	case <-time.After(60 * time.Second):
		return &core.Trace{Name: name, Meta: c.String() + " " + fmt.Sprint(plan), Events: []core.Event{{"ev": "Hang", "plan": fmt.Sprint(plan)}}}, nil
	}
	tr.Meta = c.String() + " " + fmt.Sprint(plan)
	if env == nil {
		return tr, nil
	}
	return tr, env.Disk.Ops()
}

// faultJob is one re-run of a base history with an injected failure.
type faultJob struct {
	c    HistCfg
	plan *faultPlan
}

// faultRuns learns the I/O call sequence of nb base histories and re-runs each with a failure
// injected at about perBase of its call indices (x burst lengths).
func faultRuns(r *core.Run, name string, nb, perBase int, extraBurst bool) ([]*core.Trace, []faultJob) {
	base := baseCfgs(r, name, nb, func(i int, c *HistCfg) {
		c.Txs = r.Pick(10, 20)
		c.KeepSmall = 0
		c.ReadAll = false
		c.ReadEvery = 3
		c.ReopenPct = 0
		c.AbortPct = 20
		c.BigAlloc = 6
		switch i % 3 {
		case 0: // unbounded file growing past the initially mapped 64 pages
			c.MaxPages = 0
			c.BigAlloc = 14
			c.FreeBias = -15
		case 1:
			c.MaxPages = 64
			c.KeepSmall = 40
			c.Prealloc = i%2 == 1
		}
	})
	var jobs []faultJob
	// base runs: learn the I/O call sequence
	for _, c := range base {
		_, ops := runFaultHistory(c, nil)
		var idxs []int
		rare := 0
		for _, op := range ops {
			if op.Kind == "mark" || op.Kind == simdisk.OpRead || op.Kind == simdisk.OpMUnmap {
				continue
			}
			idxs = append(idxs, op.Idx)
			if op.Kind == simdisk.OpTruncate || op.Kind == simdisk.OpMMap || op.Kind == simdisk.OpSize {
				rare++
			}
		}
		stride := len(idxs)/perBase + 1
		kindAt := map[int]string{}
		for _, op := range ops {
			kindAt[op.Idx] = op.Kind
		}
		for j, at := range idxs {
			k := kindAt[at]
			isRare := k == simdisk.OpTruncate || k == simdisk.OpMMap || k == simdisk.OpSize
			if j < 4 || (j%stride != 0 && !isRare) { // j < 4: file creation
				continue
			}
			for _, b := range []int{1, 3} {
				jobs = append(jobs, faultJob{c, &faultPlan{At: at, Burst: b, Short: (j/stride)%2 == 1}})
			}
			if extraBurst {
				jobs = append(jobs, faultJob{c, &faultPlan{At: at, Burst: 2, Short: (j/stride)%2 == 0}})
			}
		}
	}
	traces := make([]*core.Trace, len(jobs))
	var wg sync.WaitGroup
	sem := make(chan struct{}, 14)
	for i, j := range jobs {
		wg.Add(1)
		sem <- struct{}{}
		go func(i int, j faultJob) {
			defer wg.Done()
			defer func() { <-sem }()
			tr, _ := runFaultHistory(j.c, j.plan)
			traces[i] = tr
		}(i, j)
	}
	wg.Wait()
	return traces, jobs
}

// CheckC08: I/O failures are contained.
func CheckC08(r *core.Run) {
	defer exploreWriter(r)()
	r.Rule = "for base histories (bounded/unbounded, growing past the mapped size, preallocated) every selected I/O call index x failure mode (error before effect, short write, failing sync/truncate/size/mmap) x burst length is injected into a re-run of the same history; every API call runs under recover()+watchdog; TxTrace.tla judges: failing operations return errors only when a failure was injected into that transaction (or the file is full), aborted commits leave the projection of Begin, reads keep returning the committed model, CrashSafe holds on the real I/O (incl. the state of a failed attempt whose header may have reached the disk), and a plain reopen at the end shows an allowed state; distinct = (history, call index, mode, burst)"
	r.Assume("a failed sync leaves the written data in the volatile image (page cache) and not in the durable image")
	traces, jobs := faultRuns(r, "c08", r.Pick(6, 16), r.Pick(24, 400), r.Thorough())
	for _, t := range traces {
		r.AddDistinct(fmt.Sprint(t.Meta))
		r.AddEvals(int64(len(t.Events)))
	}
	r.SetExtra("fault_runs", len(jobs))
	sampleTrace(r, traces)
	if len(jobs) > 0 {
		r.AddSample(map[string]interface{}{"fault_plan": jobs[len(jobs)/2].plan.String(), "history": jobs[len(jobs)/2].c.String()})
	}
	judgeFaults(r, traces)
}

// judgeFaults validates fault traces; the signatures carry the situation (known findings).
func judgeFaults(r *core.Run, traces []*core.Trace) {
	judgeWriter(r, traces, "C01", "C03")
	judgeTx(r, traces, reportOpts{Mine: []string{"C01", "C03", "C07"}, Context: faultContext})
}

// faultContext classifies the situation in which a deviation of a fault trace
// was observed (used to tell the known findings and their consequences inside
// the same history from new violations).
func faultContext(rj core.Reject) string {
	evs := rj.Trace.Events
	if rj.EventIdx < 0 || rj.EventIdx >= len(evs) {
		return ""
	}
	// (1) some earlier (or this) Commit returned an error after the in-memory switch
	// (2) a Commit failed by its final sync (header written, sync failed) and no Commit
	//     has succeeded since
	afterSwitch, failedFinalSync := false, false
	begin := -1
	for i := 0; i <= rj.EventIdx; i++ {
		ev := evs[i]
		switch ev["ev"] {
		case "CommitBegin":
			begin = i
		case "Commit":
			if fmt.Sprint(ev["err"]) == "" {
				failedFinalSync = false
				break
			}
			if begin < 0 {
				break
			}
			hdrWritten := false
			for j := begin; j < i; j++ {
				switch {
				case evs[j]["ev"] == "CommitSwitched":
					afterSwitch = true
				case evs[j]["ev"] == "W" && isHeaderWrite(evs[j]):
					hdrWritten = true
				case evs[j]["ev"] == "Note" && evs[j]["what"] == "sync-failed" && hdrWritten:
					failedFinalSync = true
				}
			}
		}
	}
	switch {
	case afterSwitch:
		return ":after-error-after-in-memory-switch"
	case failedFinalSync:
		return ":after-failed-final-sync"
	}
	return ""
}

func isHeaderWrite(ev core.Event) bool {
	pg, ok := ev["pg"].(uint64)
	return ok && pg < 2
}

var _ = txfile.Options{}
