package checks

import (
	"fmt"
	"sort"
	"strings"
	"sync"
	"time"

	txfile "github.com/elastic/go-txfile"

	"verif/core"
	"verif/simdisk"
)

// ---------------------------------------------------------------------------
// C09: transaction locking.
//
//  explorer : Lock.tla exhaustively (safety, NoDeadlock, liveness under WF)
//  spec->code: every transition of the LockReplay state graph is driven through
//             the real File (goroutines gated at the verif hook points)
//  code->spec: the observed executions are judged by TLC with LockTrace.tla
// ---------------------------------------------------------------------------

type lockStep struct {
	Act, Proc string
	Blk, Urg  []string
}

func parseLockPath(s string) []lockStep {
	var out []lockStep
	for _, part := range strings.Split(strings.TrimSuffix(s, ","), ",") {
		if part == "" {
			continue
		}
		f := strings.SplitN(part, ":", 3)
		st := lockStep{Act: f[0], Proc: f[1]}
		for _, kv := range strings.Split(f[2], ";") {
			if strings.HasPrefix(kv, "blk=") {
				st.Blk = splitPlus(kv[4:])
			}
			if strings.HasPrefix(kv, "urg=") {
				st.Urg = splitPlus(kv[4:])
			}
		}
		out = append(out, st)
	}
	return out
}

func splitPlus(s string) []string {
	var out []string
	for _, x := range strings.Split(s, "+") {
		if x != "" {
			out = append(out, x)
		}
	}
	return out
}

// maximalPaths keeps the paths that are not a proper prefix of another path.
func maximalPaths(paths []string) []string {
	sort.Strings(paths)
	var out []string
	for i, p := range paths {
		if i+1 < len(paths) && strings.HasPrefix(paths[i+1], p) {
			continue
		}
		out = append(out, p)
	}
	return out
}

const lockTimeout = 10 * time.Second

type lockReplayer struct {
	disk   *simdisk.Disk
	f      *txfile.File
	procs  map[string]*core.Proc
	txs    map[string]*txfile.Tx
	failMu sync.Mutex
	fail   bool
	events []core.Event
	settle time.Duration
}

func newLockReplayer() (*lockReplayer, error) {
	lr := &lockReplayer{procs: map[string]*core.Proc{}, txs: map[string]*txfile.Tx{}, settle: 300 * time.Microsecond}
	lr.disk = simdisk.New("lock")
	lr.disk.Fault = func(kind string, nth, idx int) simdisk.FaultMode {
		lr.failMu.Lock()
		defer lr.failMu.Unlock()
		if lr.fail && (kind == simdisk.OpWrite || kind == simdisk.OpSync) {
			return simdisk.FailBefore
		}
		return simdisk.NoFault
	}
	f, err := txfile.VerifOpenWith(lr.disk, txfile.Options{PageSize: 1024, MaxSize: 64 * 1024})
	if err != nil {
		return nil, err
	}
	lr.f = f
	return lr, nil
}

func (lr *lockReplayer) proc(name string) *core.Proc {
	p := lr.procs[name]
	if p == nil {
		p = core.Spawn(name)
		lr.procs[name] = p
	}
	return p
}

func (lr *lockReplayer) setFail(b bool) {
	lr.failMu.Lock()
	lr.fail = b
	lr.failMu.Unlock()
}

// expect waits for proc to arrive at the given point.
func (lr *lockReplayer) expect(p *core.Proc, point string) string {
	got, ok := p.Wait(lockTimeout)
	if !ok {
		return fmt.Sprintf("timeout waiting for %s to reach %s", p.Name, point)
	}
	if got != point {
		return fmt.Sprintf("%s reached %s, expected %s", p.Name, got, point)
	}
	return ""
}

// step executes one specification action on the real file. It returns a
// non-empty problem description if the real code could not follow.
func (lr *lockReplayer) step(s lockStep) string {
	p := lr.proc(s.Proc)
	name := s.Proc
	switch s.Act {
	case "RCall", "WCall":
		ro := s.Act == "RCall"
		p.Do(func() {
			var tx *txfile.Tx
			if ro {
				tx, _ = lr.f.BeginReadonly()
			} else {
				tx, _ = lr.f.Begin()
			}
			lr.failMu.Lock()
			lr.txs[name] = tx
			lr.failMu.Unlock()
		}, "begin/request")
		if e := lr.expect(p, "begin/request"); e != "" {
			return e
		}
		p.Release("begin/locked") // enters lock.Lock()
	case "RAcq", "WAcq":
		if e := lr.expect(p, "begin/locked"); e != "" {
			return e
		}
		p.Release()
		return lr.expect(p, "ret")
	case "RUnlock":
		p.Do(func() { lr.tx(name).Close() })
		return lr.expect(p, "ret")
	case "WRollback":
		p.Do(func() { lr.tx(name).Rollback() })
		return lr.expect(p, "ret")
	case "WPending":
		p.Do(func() {
			tx := lr.tx(name)
			if pg, err := tx.Alloc(); err == nil {
				pg.SetBytes([]byte(name))
			}
			tx.Commit()
		}, "commit/pending")
		return lr.expect(p, "commit/pending")
	case "WFail":
		lr.setFail(true)
		p.Release("commit/failed")
		e := lr.expect(p, "commit/failed")
		lr.setFail(false)
		return e
	case "WFailClose":
		p.Release()
		return lr.expect(p, "ret")
	case "WXCall":
		p.Release("commit/alloc-switched")
		if e := lr.expect(p, "commit/alloc-switched"); e != "" {
			return e
		}
		p.Release("commit/exclusive") // enters exclusive.Lock()
	case "WXAcq":
		return lr.expect(p, "commit/exclusive")
	case "WSwitch":
		p.Release("commit/done")
		return lr.expect(p, "commit/done")
	case "WUnpend":
		p.Release("tx/close")
		return lr.expect(p, "tx/close")
	case "WDone":
		p.Release()
		return lr.expect(p, "ret")
	case "CCall":
		p.Do(func() { lr.f.Close() }, "close/request")
		if e := lr.expect(p, "close/request"); e != "" {
			return e
		}
		p.Release("close/reserved")
	case "CAcq":
		return lr.expect(p, "close/reserved")
	case "CPending":
		p.Release("close/pending")
		if e := lr.expect(p, "close/pending"); e != "" {
			return e
		}
		p.Release("close/exclusive")
	case "CXAcq":
		return lr.expect(p, "close/exclusive")
	case "CFinish":
		p.Release()
		return lr.expect(p, "ret")
	default:
		return "unknown action " + s.Act
	}
	return ""
}

func (lr *lockReplayer) tx(name string) *txfile.Tx {
	lr.failMu.Lock()
	defer lr.failMu.Unlock()
	return lr.txs[name]
}

// run replays one path and returns the observed trace.
func (lr *lockReplayer) run(steps []lockStep) *core.Trace {
	tr := &core.Trace{}
	for i, s := range steps {
		problem := ""
		if s.Act == "Park" {
			// the goroutine finds its guard false and goes to sleep: unobservable,
			// give it time to do so; it must not come back
			time.Sleep(lr.settle)
		} else {
			problem = lr.step(s)
		}
		ev := core.Event{"ev": s.Act, "p": s.Proc}
		if problem != "" {
			// the real code did not follow: record what was observed instead
			tr.Events = append(tr.Events, core.Event{"ev": "Stuck", "p": s.Proc, "wanted": s.Act, "problem": problem, "step": i})
			break
		}
		if len(s.Urg) == 0 {
			sh, pe := lr.f.VerifLockState()
			_, _, res := lockProbe(lr.f)
			ev["sh"], ev["pe"], ev["res"] = int(sh), pe, res
		}
		tr.Events = append(tr.Events, ev)
		// processes that the specification considers blocked must not have moved on
		for _, b := range s.Blk {
			bp := lr.proc(b)
			if got, ok := bp.Poll(); ok {
				tr.Events = append(tr.Events, core.Event{"ev": unexpectedAcq(got), "p": b, "observed": got, "note": "returned although blocked in the specification"})
			} else {
				tr.Events = append(tr.Events, core.Event{"ev": "Blocked", "p": b})
			}
		}
	}
	return tr
}

func unexpectedAcq(point string) string {
	switch point {
	case "begin/locked":
		return "Acq" // resolved by proc kind below (RAcq/WAcq) - kept generic: no action => rejected
	case "commit/exclusive":
		return "WXAcq"
	case "close/reserved":
		return "CAcq"
	case "close/exclusive":
		return "CXAcq"
	}
	return "Unexpected"
}

func lockProbe(f *txfile.File) (uint, bool, bool) {
	st := f.VerifSnapshot(true)
	return st.Shared, st.Pending, st.Reserved
}

// cleanup tries to finish all goroutines (best effort; stuck ones are leaked).
func (lr *lockReplayer) cleanup() {
	lr.setFail(false)
	for _, p := range lr.procs {
		p.Drain()
	}
}

func replayLockPaths(r *core.Run, paths []string) []*core.Trace {
	traces := make([]*core.Trace, len(paths))
	var wg sync.WaitGroup
	sem := make(chan struct{}, 8)
	for i, ps := range paths {
		wg.Add(1)
		sem <- struct{}{}
		go func(i int, ps string) {
			defer wg.Done()
			defer func() { <-sem }()
			steps := parseLockPath(ps)
			lr, err := newLockReplayer()
			if err != nil {
				r.Break("lock replay: open failed: %v", err)
				return
			}
			tr := lr.run(steps)
			tr.Name = fmt.Sprintf("lockpath-%d", i)
			tr.Meta = ps
			lr.cleanup()
			traces[i] = tr
		}(i, ps)
	}
	wg.Wait()
	out := traces[:0]
	for _, t := range traces {
		if t != nil {
			out = append(out, t)
		}
	}
	return out
}

// CheckC09 runs the C09 check.
func CheckC09(r *core.Run) {
	r.Rule = "explorer: all interleavings of readers/writers/closer in Lock.tla; conformance: every transition of the LockReplay graph (one maximal path per leaf) replayed on the real File and judged by LockTrace.tla; distinct = distinct maximal paths"
	r.Assume("goroutine ids are parsed from runtime.Stack to attribute hook events to processes")
	r.Assume("a goroutine that is blocked according to the specification is given 300us to (wrongly) return before the observation")
	r.Assume("data-race freedom is not decided by the specification (see DESIGN.md section 7)")

	// 1. explorer
	cfg := "MC_Lock_q.cfg"
	if r.Thorough() {
		cfg = "MC_Lock_t.cfg"
	}
	r.Explore(core.TLCOpts{Module: "MC_Lock", Config: cfg, Timeout: 20 * time.Minute, HeapMB: 8192, Coverage: r.Thorough()})

	// 1b. inductive invariant (Apalache): the safety properties for any number of transactions
	indDone := make(chan struct{})
	indMsg := ""
	go func() {
		defer close(indDone)
		for _, ob := range [][]string{
			{"--cinit=ConstInit", "--init=Init", "--inv=IndInv", "--length=0"},
			{"--cinit=ConstInit", "--init=IndInit", "--inv=IndInv", "--length=1"},
		} {
			ok, out, err := core.RunApalache(r.Scratch, "LockInd", ob, 15*time.Minute)
			if err != nil || !ok {
				lines := strings.Split(strings.TrimSpace(out), "\n")
				if len(lines) > 12 {
					lines = lines[len(lines)-12:]
				}
				if strings.Contains(out, "invariant") && strings.Contains(out, "violated") {
					// a counterexample to induction: the specification (not the code) needs attention
					r.Break("Apalache found a counterexample for %v of LockInd.tla: %v\n%s", ob, err, strings.Join(lines, "\n"))
				} else {
					// no answer (time limit, tool missing): nothing is claimed
					indMsg = fmt.Sprintf("not discharged in this run (%v: no answer from Apalache within the time limit)", ob)
				}
				return
			}
		}
		indMsg = "Init => IndInv and IndInv /\\ Next => IndInv' discharged by Apalache (3 readers, 2 writers, closer; any number of transactions)"
	}()
	defer func() {
		<-indDone
		if indMsg != "" {
			r.SetExtra("inductive_invariant_LockInd", indMsg)
		}
	}()

	// 2. generator: all transitions of the replay graph
	rcfg := "LockReplay_q.cfg"
	if r.Thorough() {
		rcfg = "LockReplay_t.cfg"
	}
	gen, err := core.RunTLC(r.Scratch, core.TLCOpts{Module: "LockReplay", Config: rcfg, Workers: 1, Timeout: 20 * time.Minute, HeapMB: 4096})
	if err != nil || !gen.OK {
		r.Break("LockReplay generator failed: %v %s", err, tail(gen))
		return
	}
	var paths []string
	for _, p := range gen.Prints {
		if strings.HasPrefix(p, "@P ") {
			paths = append(paths, strings.TrimPrefix(p, "@P "))
		}
	}
	gen.Cleanup()
	r.SetExtra("replay_transitions", len(paths))
	r.SetExtra("replay_graph_states", gen.Distinct)
	max := maximalPaths(paths)
	r.SetExtra("replay_maximal_paths", len(max))
	for _, p := range max {
		r.AddDistinct(p)
	}
	r.AddEvals(int64(len(paths)))
	if len(max) > 0 {
		r.AddSample(map[string]interface{}{"replayed_path": max[len(max)/2]})
	}

	// 3. replay on the real code, judge with TLC
	traces := replayLockPaths(r, max)
	// 4. open-time maintenance transactions
	traces = append(traces, openTimeLockTraces(r)...)

	runSelfTestN(r, "LockTrace", "LockTrace.cfg", traces, lockMutants())
	rejects := r.Judge(core.JudgeOpts{Module: "LockTrace", Config: "LockTrace.cfg", Timeout: 20 * time.Minute, HeapMB: 4096}, traces)
	for _, rj := range rejects {
		sig := "lock-trace:" + rj.Kind + ":" + fmt.Sprint(rj.Event["ev"])
		if w, ok := rj.Event["wanted"]; ok {
			sig += ":" + fmt.Sprint(w)
		}
		path := r.SaveReplay(rj.Trace.Name+".ndjson", rj.Trace.Serialize())
		r.Violate(core.Violation{Signature: sig, What: rj.Describe(), Replay: path})
	}
	if len(traces) > 0 {
		r.AddSample(map[string]interface{}{"validated_trace_events": traces[len(traces)-1].Events})
	}
}

func tail(res *core.TLCResult) string {
	if res == nil {
		return ""
	}
	return res.Tail(30)
}

// openTimeLockTraces opens files with every max-size option combination that
// runs internal transactions (withInitTx) and records the lock steps.
func openTimeLockTraces(r *core.Run) []*core.Trace {
	type combo struct {
		name           string
		oldMax, newMax uint64
		prealloc       bool
		fill           int // pages allocated before reopening
	}
	const ps = 1024
	combos := []combo{
		{"grow", 64 * ps, 128 * ps, false, 3},
		{"grow-prealloc", 64 * ps, 128 * ps, true, 3},
		{"shrink", 128 * ps, 64 * ps, false, 3},
		{"shrink-release", 128 * ps, 64 * ps, false, 100},
		{"to-unbounded", 64 * ps, 0, false, 3},
		{"from-unbounded", 0, 96 * ps, false, 3},
		{"same", 64 * ps, 64 * ps, false, 3},
	}
	var out []*core.Trace
	for _, c := range combos {
		disk := simdisk.New("open-" + c.name)
		f, err := txfile.VerifOpenWith(disk, txfile.Options{PageSize: ps, MaxSize: c.oldMax})
		if err != nil {
			r.Break("open-time %s: create failed: %v", c.name, err)
			continue
		}
		tx, _ := f.Begin()
		pgs, err := tx.AllocN(c.fill)
		if err == nil {
			for _, pg := range pgs {
				pg.SetBytes([]byte("x"))
			}
			err = tx.Commit()
		}
		if err != nil {
			tx.Close()
			r.Break("open-time %s: fill failed: %v", c.name, err)
			continue
		}
		if c.fill > 50 { // free the upper pages again so that the shrink can release regions
			tx, _ = f.Begin()
			for i := 20; i < len(pgs); i++ {
				pg, _ := tx.Page(pgs[i].ID())
				pg.Free()
			}
			tx.Commit()
		}
		f.Close()

		// reopen with the new size, recording the lock steps of the internal transactions
		tr := &core.Trace{Name: "open-" + c.name, Meta: c}
		proc := core.Spawn("w1")
		var f2 *txfile.File
		var openErr error
		var fileRef *txfile.File
		nTx := 0
		obs := func(ev string, withState ...bool) {
			e := core.Event{"ev": ev, "p": "w1"}
			if fileRef != nil && len(withState) == 0 {
				sh, pe, res := lockProbeSafe(fileRef, ev)
				e["sh"], e["pe"], e["res"] = sh, pe, res
			}
			tr.Events = append(tr.Events, e)
		}
		proc.OnPass = func(point string, ev txfile.VerifEvent) {
			if ev.File != nil {
				fileRef = ev.File
			}
			switch point {
			case "begin/request":
				nTx++
				obs("WCall")
			case "begin/locked":
				obs("WAcq")
			case "init/pending":
				obs("WPending")
			case "init/exclusive":
				obs("WXCall")
				obs("WXAcq")
			case "tx/close":
				// deferred exclusive/pending unlocks have run
				obs("WSwitch", false)
				obs("WUnpend")
			case "tx/closed":
				obs("WDone")
			}
		}
		flags := txfile.FlagUpdMaxSize
		disk.Reopen()
		proc.Do(func() {
			f2, openErr = txfile.VerifOpenWith(disk, txfile.Options{MaxSize: c.newMax, Flags: flags, Prealloc: c.prealloc})
		})
		if _, ok := proc.Wait(lockTimeout); !ok {
			tr.Events = append(tr.Events, core.Event{"ev": "Stuck", "p": "w1", "problem": "Open did not return"})
			out = append(out, tr)
			continue
		}
		proc.OnPass = nil
		if openErr != nil {
			r.Break("open-time %s: reopen failed: %+v", c.name, openErr)
			proc.Stop()
			continue
		}
		// after Open returned: a reader and a writer must get through, then Close
		done := make(chan struct{})
		go func() {
			defer close(done)
			rt, err := f2.BeginReadonly()
			if err == nil {
				rt.Close()
			}
			wt, err := f2.Begin()
			if err == nil {
				wt.Rollback()
			}
		}()
		select {
		case <-done:
			sh, pe, res := lockProbe(f2)
			tr.Events = append(tr.Events,
				core.Event{"ev": "RCall", "p": "r1"}, core.Event{"ev": "RAcq", "p": "r1"}, core.Event{"ev": "RUnlock", "p": "r1"},
				core.Event{"ev": "WCall", "p": "w2"}, core.Event{"ev": "WAcq", "p": "w2"},
				core.Event{"ev": "WRollback", "p": "w2", "sh": int(sh), "pe": pe, "res": res})
			f2.Close()
		case <-time.After(10 * time.Second):
			sh, pe, res := lockProbe(f2)
			tr.Events = append(tr.Events, core.Event{"ev": "Stuck", "p": "r1", "problem": "BeginReadonly/Begin blocked after Open returned",
				"sh": int(sh), "pe": pe, "res": res})
		}
		tr.Events = append([]core.Event{}, tr.Events...)
		r.SetExtra("open_time_"+c.name+"_internal_tx", nTx)
		proc.Stop()
		out = append(out, tr)
	}
	return out
}

// lockProbeSafe reads the lock state at a hook point inside the transaction
// owning goroutine (the reserved mutex is held by it for every point but the
// last one).
func lockProbeSafe(f *txfile.File, ev string) (int, bool, bool) {
	sh, pe := f.VerifLockState()
	st := f.VerifSnapshot(true)
	return int(sh), pe, st.Reserved
}
