package checks

import (
	"fmt"

	txfile "github.com/elastic/go-txfile"

	"verif/core"
	"verif/fenv"
)

// scenario runs fn on a fresh environment and returns the trace; panics of
// the real code become events.
func scenario(name string, opts txfile.Options, noIO bool, fn func(e *fenv.Env)) *core.Trace {
	e := fenv.New(name, opts)
	e.IO = !noIO
	tr := &core.Trace{Name: name, Meta: name}
	func() {
		defer func() {
			if p := recover(); p != nil {
				e.Emit(core.Event{"ev": "Panic", "msg": fmt.Sprint(p), "stack": core.ShortStack()})
			}
		}()
		if err := e.Open(nil, 0); err != nil {
			e.Emit(core.Event{"ev": "OpenFailed", "err": fenv.ErrKind(err), "msg": fmt.Sprintf("%+v", err)})
			return
		}
		fn(e)
		e.Close()
	}()
	tr.Events = e.Events()
	tr.Writer = e.WriterEvents()
	return tr
}

func mustBegin(e *fenv.Env, o txfile.TxOptions) {
	if err := e.Begin(o); err != nil {
		panic(fmt.Sprintf("begin failed: %v", err))
	}
}

// reopenRead closes and reopens the file and reads a sample of the pages.
func reopenRead(e *fenv.Env, tag string, sample []uint64) {
	if err := e.Reopen(txfile.Options{}); err != nil {
		panic("reopen failed")
	}
	r, err := e.BeginRead(tag, true)
	if err != nil {
		return
	}
	for _, id := range sample {
		e.Read(r, id)
	}
	e.EndRead(r, true)
}

// c10Scenarios builds the states the quantifier of C10 names: free lists and
// overwrite mappings spanning several meta pages, regions of 254/255/256 and
// more pages, files grown past the initially mapped 64 KiB, overflow area.
func c10Scenarios(r *core.Run) []*core.Trace {
	var out []*core.Trace
	ps := uint32(1024)

	// 1. long free runs (short/overflow region encoding boundary)
	for _, run := range []int{254, 255, 256, 300, 511} {
		run := run
		out = append(out, scenario(fmt.Sprintf("c10-run%d", run), txfile.Options{PageSize: ps}, false, func(e *fenv.Env) {
			mustBegin(e, txfile.TxOptions{})
			ids, _ := e.Alloc(run + 40)
			for i, id := range ids {
				if i%25 == 0 || i < 3 || i >= run+20 {
					e.Set(id, 4)
				}
			}
			e.SetRoot(ids[0])
			e.Commit()
			mustBegin(e, txfile.TxOptions{})
			for _, id := range ids[10 : 10+run] { // one contiguous run of exactly `run` pages
				e.Free(id)
			}
			e.Commit()
			sample := []uint64{ids[0], ids[1], ids[run+20], ids[run+39]}
			reopenRead(e, "r1", sample)
			// allocation behaviour after the reopen: same ids as the model permits, data intact
			mustBegin(e, txfile.TxOptions{})
			n, _ := e.Alloc(run / 2)
			for i, id := range n {
				if i%40 == 0 {
					e.Set(id, 4)
				}
			}
			e.Commit()
			reopenRead(e, "r2", sample)
			mustBegin(e, txfile.TxOptions{})
			e.Alloc(run) // needs the rest of the run plus fresh pages
			e.Rollback(false)
			reopenRead(e, "r3", sample)
		}))
	}

	// 2. fragmented free space: several freelist pages
	out = append(out, scenario("c10-fragmented", txfile.Options{PageSize: ps}, false, func(e *fenv.Env) {
		mustBegin(e, txfile.TxOptions{})
		ids, _ := e.Alloc(700)
		for i, id := range ids {
			if i%2 == 0 && i%50 == 0 {
				e.Set(id, 4)
			}
		}
		e.Commit()
		mustBegin(e, txfile.TxOptions{})
		for i, id := range ids {
			if i%2 == 1 {
				e.Free(id)
			}
		}
		e.Commit()
		sample := []uint64{ids[0], ids[50], ids[100], ids[600]}
		reopenRead(e, "r1", sample)
		mustBegin(e, txfile.TxOptions{})
		n, _ := e.Alloc(200)
		for i, id := range n {
			if i%37 == 0 {
				e.Set(id, 2)
			}
		}
		e.Commit()
		reopenRead(e, "r2", sample)
		mustBegin(e, txfile.TxOptions{})
		for i, id := range ids {
			if i%2 == 0 && i%3 == 0 {
				e.Free(id)
			}
		}
		e.Commit()
		reopenRead(e, "r3", []uint64{ids[2], ids[4]})
	}))

	// 3. many pending overwrites: several mapping pages
	out = append(out, scenario("c10-manywal", txfile.Options{PageSize: ps}, false, func(e *fenv.Env) {
		mustBegin(e, txfile.TxOptions{WALLimit: 100000})
		ids, _ := e.Alloc(260)
		for _, id := range ids {
			e.Set(id, 4)
		}
		e.Commit()
		mustBegin(e, txfile.TxOptions{WALLimit: 100000})
		for i, id := range ids[:200] {
			e.Set(id, 1+i%4)
		}
		e.Commit()
		reopenRead(e, "r1", ids[:210])
		mustBegin(e, txfile.TxOptions{WALLimit: 100000})
		for _, id := range ids[100:150] {
			e.Set(id, 4) // second overwrite: back to the original page
		}
		for _, id := range ids[150:170] {
			e.Free(id)
		}
		e.Commit()
		reopenRead(e, "r2", ids[:150])
		mustBegin(e, txfile.TxOptions{WALLimit: 10}) // automatic checkpoint
		e.Set(ids[0], 4)
		e.Commit()
		reopenRead(e, "r3", ids[:150])
	}))

	// 4. bounded full file, overflow area in use, then reopen
	for _, initMeta := range []uint32{0, 4} {
		initMeta := initMeta
		out = append(out, scenario(fmt.Sprintf("c10-overflow-m%d", initMeta), txfile.Options{PageSize: ps, MaxSize: 64 * 1024, InitMetaArea: initMeta}, false, func(e *fenv.Env) {
			mustBegin(e, txfile.TxOptions{})
			n := 62 - int(initMeta)
			ids, err := e.Alloc(n)
			if err != nil {
				panic("fill failed")
			}
			for _, id := range ids {
				e.Set(id, 4)
			}
			e.Commit()
			reopenRead(e, "r0", ids[:5])
			// only the overflow area can provide meta pages now
			mustBegin(e, txfile.TxOptions{EnableOverflowArea: true, WALLimit: 1000})
			e.Set(ids[3], 4)
			e.Set(ids[4], 2)
			e.Free(ids[10])
			e.Commit()
			reopenRead(e, "r1", ids[:9])
			mustBegin(e, txfile.TxOptions{EnableOverflowArea: true, WALLimit: 1000})
			e.Free(ids[11])
			e.Free(ids[12])
			e.Set(ids[5], 4)
			e.Commit()
			reopenRead(e, "r2", ids[:9])
			mustBegin(e, txfile.TxOptions{WALLimit: 1})
			e.Free(ids[20])
			e.Commit()
			reopenRead(e, "r3", ids[:9])
		}))
	}
	return out
}
