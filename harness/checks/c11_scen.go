package checks

import (
	"fmt"

	txfile "github.com/elastic/go-txfile"

	"verif/core"
	"verif/fenv"
)

// c11Scenarios builds allocator states that random alloc/free cycles rarely reach:
//   - the last pages allocated by a transaction are freed again before its commit (the data end
//     marker shrinks, the meta end marker does not), then reopen: statistics and accounting;
//   - free meta pages at the very end of the file (the meta area grew there and the WAL was
//     checkpointed) on a file that is over a reduced limit: the next commit releases them.
func c11Scenarios(r *core.Run) []*core.Trace {
	var out []*core.Trace
	ps := uint64(1024)
	for _, n := range []int{3, 5, 12} {
		for _, k := range []int{1, 2} {
			for _, max := range []uint64{0, 64} {
				n, k, max := n, k, max
				out = append(out, scenario(fmt.Sprintf("c11-tail-%d-%d-max%d", n, k, max), txfile.Options{PageSize: uint32(ps), MaxSize: max * ps}, true, func(e *fenv.Env) {
					for round := 0; round < 3; round++ {
						mustBegin(e, txfile.TxOptions{})
						ids, err := e.Alloc(n)
						if err != nil {
							e.Rollback(false)
							return
						}
						for _, id := range ids[:n-k] {
							e.Set(id, 4)
						}
						for _, id := range ids[n-k:] { // the last pages of the file, never written
							e.Free(id)
						}
						e.Commit()
						if err := e.Reopen(txfile.Options{}); err != nil {
							panic("reopen failed")
						}
						e.ReadAll(fmt.Sprintf("r%d", round))
					}
				}))
			}
		}
	}
	// one free run of 254 / 255 / 256 pages (the boundary of the compact region encoding) at the
	// end and in the middle of a bounded file, then reopen: nothing may get lost for allocation
	for _, run := range []int{254, 255, 256} {
		for _, atEnd := range []bool{true, false} {
			run, atEnd := run, atEnd
			out = append(out, scenario(fmt.Sprintf("c11-run%d-end%v", run, atEnd), txfile.Options{PageSize: uint32(ps), MaxSize: 400 * ps}, true, func(e *fenv.Env) {
				mustBegin(e, txfile.TxOptions{})
				ids, err := e.Alloc(300)
				if err != nil {
					e.Rollback(false)
					return
				}
				for i, id := range ids {
					if i%40 == 0 {
						e.Set(id, 4)
					}
				}
				e.Commit()
				mustBegin(e, txfile.TxOptions{})
				from := 300 - run
				if !atEnd {
					from = 20
				}
				for _, id := range ids[from : from+run] {
					e.Free(id)
				}
				e.Commit()
				e.ReadAll("r0")
				if err := e.Reopen(txfile.Options{}); err != nil {
					panic("reopen failed")
				}
				e.ReadAll("r1")
				// the space is really there: allocate it again
				mustBegin(e, txfile.TxOptions{})
				e.Alloc(run)
				e.Commit()
				if err := e.Reopen(txfile.Options{}); err != nil {
					panic("reopen failed")
				}
				e.ReadAll("r2")
			}))
		}
	}
	for _, live := range []int{80, 100} {
		for _, over := range []int{10, 25} {
			for _, newMax := range []uint64{64, 70} {
				live, over, newMax := live, over, newMax
				out = append(out, scenario(fmt.Sprintf("c11-overlimit-%d-%d-%d", live, over, newMax), txfile.Options{PageSize: uint32(ps), MaxSize: 160 * ps}, true, func(e *fenv.Env) {
					mustBegin(e, txfile.TxOptions{})
					ids, _ := e.Alloc(live)
					for _, id := range ids {
						e.Set(id, 4)
					}
					e.Commit()
					// overwrites: the mapping needs meta pages, taken from the end of the file
					mustBegin(e, txfile.TxOptions{WALLimit: 1000})
					for _, id := range ids[:over] {
						e.Set(id, 4)
					}
					e.Commit()
					// checkpoint: the pages of the mapping become free meta pages at the end
					mustBegin(e, txfile.TxOptions{})
					e.Checkpoint()
					e.Commit()
					if err := e.Resize(newMax*ps, false); err != nil {
						panic("resize failed")
					}
					e.ReadAll("r0")
					for k := 0; k < 4; k++ {
						mustBegin(e, txfile.TxOptions{})
						e.Free(ids[live-1-k])
						e.Commit()
						e.ReadAll(fmt.Sprintf("s%d", k))
					}
					if err := e.Reopen(txfile.Options{}); err != nil {
						panic("reopen failed")
					}
					e.ReadAll("t")
					mustBegin(e, txfile.TxOptions{})
					for _, id := range ids[newMax/2:] {
						if _, ok := e.Live[id]; ok {
							e.Free(id)
						}
					}
					e.Commit()
					e.ReadAll("u")
					if err := e.Reopen(txfile.Options{}); err != nil {
						panic("reopen failed")
					}
					e.ReadAll("v")
				}))
			}
		}
	}
	return out
}
