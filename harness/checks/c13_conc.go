package checks

import (
	"bytes"
	"context"
	"fmt"
	"math/rand"
	"os"
	"os/exec"
	"runtime"
	"strings"
	"sync"
	"sync/atomic"
	"time"

	txfile "github.com/elastic/go-txfile"

	"verif/core"
	"verif/qenv"
)

// RunConcurrentQueue runs a producer goroutine and a consumer goroutine on one queue.
func RunConcurrentQueue(c QCfg, events int) *core.Trace {
	e := qenv.New(c.Name, txfile.Options{PageSize: c.PageSize, MaxSize: c.MaxPages * uint64(c.PageSize)}, c.WriteBuffer)
	tr := &core.Trace{Name: c.Name, Meta: c.String() + fmt.Sprintf(" concurrent events=%d", events)}
	if err := e.Open(true); err != nil {
		tr.Events = e.Events()
		return tr
	}
	var wg sync.WaitGroup
	stop := make(chan struct{})
	guard := func(name string) {
		if p := recover(); p != nil {
			e.Emit(core.Event{"ev": "Panic", "who": name, "msg": fmt.Sprint(p), "stack": core.ShortStack()})
		}
	}
	produced := make(chan int, 1)
	var progress int64 // successful operations of either side (the watchdog looks at progress, not at time)
	wg.Add(2)
	go func() { // producer
		defer wg.Done()
		defer guard("producer")
		rng := rand.New(rand.NewSource(c.Seed))
		n := 0
		for n < events {
			select {
			case <-stop:
				produced <- n
				return
			default:
			}
			if err := produce(e, rng, c); err != nil {
				if qenv.IsFull(err) {
					time.Sleep(200 * time.Microsecond) // wait for the consumer to free space
					continue
				}
			}
			n++
			atomic.AddInt64(&progress, 1)
			if rng.Intn(4) == 0 {
				e.Flush()
			}
			if rng.Intn(3) == 0 {
				runtime.Gosched()
			}
		}
		for k := 0; k < 2000; k++ {
			if e.Flush() == nil {
				break
			}
			time.Sleep(200 * time.Microsecond)
		}
		produced <- n
	}()
	consumed := 0
	go func() { // consumer
		defer wg.Done()
		defer guard("consumer")
		rng := rand.New(rand.NewSource(c.Seed + 1))
		idle, outstanding := 0, 0
		for consumed < events && idle < 200000 {
			select {
			case <-stop:
				return
			default:
			}
			got, acked := consumeAck(e, rng, 1+rng.Intn(8), true)
			consumed += got
			outstanding += got - acked
			if got == 0 && outstanding > 0 {
				// nothing to read: a consumer that keeps up ACKs what it has consumed (the
				// producer may be waiting for exactly that space)
				if e.ACK(outstanding) == nil {
					outstanding = 0
					atomic.AddInt64(&progress, 1)
				}
			}
			if got == 0 {
				idle++
				runtime.Gosched()
				if idle%50 == 0 {
					time.Sleep(100 * time.Microsecond)
				}
			} else {
				idle = 0
				atomic.AddInt64(&progress, 1)
			}
		}
	}()
	done := make(chan struct{})
	go func() { wg.Wait(); close(done) }()
	// a hang is the absence of any progress for a minute (not a bound on the total time: the
	// machine may be busy); a run that keeps making progress but does not finish within the
	// overall budget is a failure of the harness, not of the queue
	last, lastAt, start := int64(-1), time.Now(), time.Now()
	tick := time.NewTicker(500 * time.Millisecond)
	defer tick.Stop()
loop:
	for {
		select {
		case <-done:
			e.Counters()
			e.Close()
			break loop
		case <-tick.C:
			if p := atomic.LoadInt64(&progress); p != last {
				last, lastAt = p, time.Now()
			}
			if time.Since(lastAt) > 60*time.Second {
				close(stop)
				diag := map[string]interface{}{}
				select {
				case <-done: // both sides have stopped: look at the state they are stuck in
					st := e.F.VerifSnapshot(false)
					nfree := func(rs []txfile.VerifRegion) (n uint64) {
						for _, r := range rs {
							n += uint64(r.Count)
						}
						return
					}
					diag["data_free"], diag["meta_free"] = nfree(st.DataFree), nfree(st.MetaFree)
					diag["data_end"], diag["meta_end"], diag["meta_total"], diag["max_pages"] = st.DataEnd, st.MetaEnd, st.MetaTotal, st.MaxPages
					diag["data_allocated"] = st.Stats.DataAllocated
					if p, err := e.Q.Pending(); err == nil {
						diag["pending"] = p
					}
					if err := e.W.Flush(); err != nil {
						diag["flush_error"] = fmt.Sprintf("%+v", err)
					} else {
						diag["flush_error"] = ""
					}
				case <-time.After(5 * time.Second):
					diag["stuck"] = "the goroutines did not stop"
				}
				e.Emit(core.Event{"ev": "Hang", "consumed": consumed, "no_progress_s": 60, "diag": diag})
				break loop
			}
			if time.Since(start) > 20*time.Minute {
				close(stop)
				e.Emit(core.Event{"ev": "TimedOut", "consumed": consumed})
				break loop
			}
		}
	}
	tr.Events = e.Events()
	return tr
}

// CheckC13: concurrent producer and consumer.
func CheckC13(r *core.Run) {
	defer explorePQ(r)()
	r.Rule = "one goroutine drives the Writer (Write/Next/Flush with random chunking), another the Reader and ACK on the same queue (bounded and unbounded files, so that full-file retries occur); the interleaved execution is recorded in real order (flush/ACK effects are linearised at the store's commit/switched hook) and judged by PQTrace.tla: exact event sequence in order, ACK never beyond what was flushed, callbacks, no panic, no hang (watchdog); distinct = configurations/seeds"
	r.Assume("data-race freedom is not decided by the specification; the concurrent runs are additionally executed by a race-detector build when a C toolchain for cgo is available (see evidence key race_build)")
	n := r.Pick(16, 80)
	cfgs := pqCfgs(r, "c13", n, func(i int, c *QCfg) {
		c.ReopenPct, c.MidReopen, c.FaultPct = 0, 0, 0
		c.LagMax = 0
		if i%3 == 0 {
			c.MaxPages, c.BigPct = 64, 30
		} else {
			c.MaxPages = 0
		}
	})
	if only := os.Getenv("VERIF_ONLY_CFG"); only != "" { // (development aid)
		var sel []QCfg
		for _, c := range cfgs {
			if c.Name == only {
				sel = append(sel, c)
			}
		}
		cfgs = sel
	}
	traces := make([]*core.Trace, len(cfgs))
	var wg sync.WaitGroup
	sem := make(chan struct{}, 6)
	for i, c := range cfgs {
		wg.Add(1)
		sem <- struct{}{}
		go func(i int, c QCfg) {
			defer wg.Done()
			defer func() { <-sem }()
			traces[i] = RunConcurrentQueue(c, r.Pick(150, 600))
		}(i, c)
	}
	wg.Wait()
	// steered interleavings: a read transaction spans a flush / ACK commit
	scfgs := pqCfgs(r, "c13-steer", r.Pick(10, 60), func(i int, c *QCfg) {
		c.ReopenPct, c.MidReopen, c.FaultPct, c.LagMax, c.MaxPages = 0, 0, 0, 0, 0
	})
	steered := make([]*core.Trace, len(scfgs))
	for i, c := range scfgs {
		wg.Add(1)
		sem <- struct{}{}
		go func(i int, c QCfg) {
			defer wg.Done()
			defer func() { <-sem }()
			steered[i] = RunSteeredQueue(c, r.Pick(8, 20))
		}(i, c)
	}
	wg.Wait()
	traces = append(traces, steered...)
	// a run that made progress all the time but exceeded the overall budget says nothing
	kept := traces[:0]
	for _, t := range traces {
		if n := len(t.Events); n > 0 && t.Events[n-1]["ev"] == "TimedOut" {
			r.Break("concurrent run %s did not finish within the budget (it kept making progress): %v", t.Name, t.Events[n-1])
			continue
		}
		kept = append(kept, t)
	}
	traces = kept
	for _, t := range traces {
		r.AddDistinct(fmt.Sprint(t.Meta))
		r.AddEvals(int64(len(t.Events)))
	}
	pqSample(r, traces)
	judgePQ(r, traces, "C05", "C06", "C12", "C17")
	runRaceBuild(r)
}

func raceC13() {
	r, _ := core.NewRun("C13", "quick", 1)
	cfgs := pqCfgs(r, "c13-race", 6, func(i int, c *QCfg) {
		c.ReopenPct, c.MidReopen, c.FaultPct, c.LagMax = 0, 0, 0, 0
		if i%3 == 0 {
			c.MaxPages, c.BigPct = 64, 30
		}
	})
	for _, c := range cfgs {
		RunConcurrentQueue(c, 150)
	}
}

// runRaceBuild executes the race-detector build of the harness for the
// property and reports data races (real behaviour of the code under test).
func runRaceBuild(r *core.Run) {
	bin := os.Getenv("VERIF_RACE_BIN")
	if bin == "" {
		r.SetExtra("race_build", "not available (no cgo toolchain); data-race clause not examined")
		return
	}
	ctx, cancel := context.WithTimeout(context.Background(), 5*time.Minute)
	defer cancel()
	cmd := exec.CommandContext(ctx, bin, r.Prop, "race")
	cmd.Env = append(os.Environ(), "GORACE=halt_on_error=0 exitcode=0")
	var out bytes.Buffer
	cmd.Stdout, cmd.Stderr = &out, &out
	err := cmd.Run()
	text := out.String()
	n := strings.Count(text, "WARNING: DATA RACE")
	r.SetExtra("race_build", fmt.Sprintf("executed, %d data race reports", n))
	if ctx.Err() != nil {
		r.Break("race build timed out")
		return
	}
	if err != nil && n == 0 {
		r.Break("race build failed: %v\n%s", err, lastLines(text, 15))
		return
	}
	if n > 0 {
		// signature: the first two go-txfile frames of the first report
		var frames []string
		for _, l := range strings.Split(text, "\n") {
			l = strings.TrimSpace(l)
			if strings.HasPrefix(l, "github.com/elastic/go-txfile") && len(frames) < 2 {
				if i := strings.Index(l, "("); i > 0 {
					l = l[:i]
				}
				frames = append(frames, l)
			}
		}
		i := strings.Index(text, "WARNING: DATA RACE")
		rep := text[i:]
		if len(rep) > 3000 {
			rep = rep[:3000]
		}
		path := r.SaveReplay("race-report.txt", []byte(text))
		r.Violate(core.Violation{Signature: "race:" + strings.Join(frames, "|"), What: "data race reported by the race-detector build of the concurrent driver:\n" + rep, Replay: path})
	}
}

func lastLines(s string, n int) string {
	l := strings.Split(strings.TrimRight(s, "\n"), "\n")
	if len(l) > n {
		l = l[len(l)-n:]
	}
	return strings.Join(l, "\n")
}

// RunSteeredQueue holds the consumer inside a read transaction while the
// producer's flush commit is waiting for the exclusive lock (and vice versa
// for ACK), using the gates on the store's hook points.
func RunSteeredQueue(c QCfg, rounds int) *core.Trace {
	rng := rand.New(rand.NewSource(c.Seed))
	e := qenv.New(c.Name, txfile.Options{PageSize: c.PageSize, MaxSize: c.MaxPages * uint64(c.PageSize)}, c.WriteBuffer)
	tr := &core.Trace{Name: c.Name, Meta: c.String() + fmt.Sprintf(" steered rounds=%d", rounds)}
	defer func() {
		if p := recover(); p != nil {
			e.Emit(core.Event{"ev": "Panic", "msg": fmt.Sprint(p), "stack": core.ShortStack()})
		}
		tr.Events = e.Events()
	}()
	if err := e.Open(true); err != nil {
		return tr
	}
	prod, cons := core.Spawn("producer"), core.Spawn("consumer")
	defer prod.Drain()
	defer cons.Drain()
	const tmo = 60 * time.Second
	wait := func(p *core.Proc, want string) bool {
		got, ok := p.Wait(tmo)
		if !ok || got != want {
			e.Emit(core.Event{"ev": "Hang", "who": p.Name, "wanted": want, "got": got})
			return false
		}
		return true
	}
	guard := func(fn func()) func() {
		return func() {
			defer func() {
				if p := recover(); p != nil {
					e.Emit(core.Event{"ev": "Panic", "msg": fmt.Sprint(p), "stack": core.ShortStack()})
				}
			}()
			fn()
		}
	}
	// some events to start with
	prod.Do(guard(func() {
		for i := 0; i < 3; i++ {
			produce(e, rng, c)
		}
		e.Flush()
	}))
	if !wait(prod, "ret") {
		return tr
	}
	for round := 0; round < rounds; round++ {
		// the consumer opens a read transaction and reads a little
		cons.Do(guard(func() {
			if e.RBegin() != nil {
				return
			}
			if size, err := e.RNext(); err == nil && size > 0 {
				e.RRead(1 + rng.Intn(size))
			}
		}))
		if !wait(cons, "ret") {
			return tr
		}
		// the producer flushes new events; its commit is durable and now has to wait for the reader
		prod.Do(guard(func() {
			for i := 0; i < 1+rng.Intn(4); i++ {
				produce(e, rng, c)
			}
			e.Flush()
		}), "commit/alloc-switched")
		got, ok := prod.Wait(tmo)
		if !ok {
			e.Emit(core.Event{"ev": "Hang", "who": "producer"})
			return tr
		}
		blocked := got == "commit/alloc-switched"
		if blocked {
			prod.Release() // runs into exclusive.Lock(): blocked by the reader
			time.Sleep(300 * time.Microsecond)
		}
		// meanwhile the consumer keeps reading inside its (old) snapshot
		cons.Do(guard(func() {
			e.Available()
			for k := 0; k < 200; k++ {
				size, err := e.RNext()
				if err != nil || size <= 0 {
					break
				}
				left := size
				for left > 0 {
					r, err := e.RRead(1 + rng.Intn(left))
					if err != nil || r <= 0 {
						break
					}
					left -= r
				}
			}
			e.Available()
			e.RDone()
		}))
		if !wait(cons, "ret") {
			return tr
		}
		if blocked && !wait(prod, "ret") {
			return tr
		}
		// ACK transaction while nobody reads, then an ACK whose commit waits for a reader
		cons.Do(guard(func() {
			consume(e, rng, 2+rng.Intn(6), true)
			if e.RBegin() == nil {
				e.RNext()
			}
		}))
		if !wait(cons, "ret") {
			return tr
		}
		prod.Do(guard(func() {
			produce(e, rng, c)
			e.Flush()
		}), "commit/alloc-switched")
		if got, ok := prod.Wait(tmo); ok && got == "commit/alloc-switched" {
			prod.Release()
			time.Sleep(300 * time.Microsecond)
			cons.Do(guard(func() {
				for k := 0; k < 3; k++ {
					size, err := e.RNext()
					if err != nil || size <= 0 {
						break
					}
					e.RRead(size)
				}
				e.RDone()
			}))
			if !wait(cons, "ret") || !wait(prod, "ret") {
				return tr
			}
		} else if !ok {
			e.Emit(core.Event{"ev": "Hang", "who": "producer"})
			return tr
		} else {
			cons.Do(guard(func() { e.RDone() }))
			if !wait(cons, "ret") {
				return tr
			}
		}
	}
	cons.Do(guard(func() {
		for k := 0; k < 500; k++ {
			if consume(e, rng, 20, true) == 0 {
				break
			}
		}
		e.Counters()
	}))
	wait(cons, "ret")
	e.Close()
	return tr
}
