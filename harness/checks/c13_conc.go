package checks

import (
	"bytes"
	"context"
	"fmt"
	"math/rand"
	"os"
	"os/exec"
	"runtime"
	"strings"
	"sync"
	"time"

	txfile "github.com/elastic/go-txfile"

	"verif/core"
	"verif/qenv"
)

// RunConcurrentQueue runs a producer goroutine and a consumer goroutine on one queue.
func RunConcurrentQueue(c QCfg, events int) *core.Trace {
	e := qenv.New(c.Name, txfile.Options{PageSize: c.PageSize, MaxSize: c.MaxPages * uint64(c.PageSize)}, c.WriteBuffer)
	tr := &core.Trace{Name: c.Name, Meta: c.String() + fmt.Sprintf(" concurrent events=%d", events)}
	if err := e.Open(true); err != nil {
		tr.Events = e.Events()
		return tr
	}
	var wg sync.WaitGroup
	stop := make(chan struct{})
	guard := func(name string) {
		if p := recover(); p != nil {
			e.Emit(core.Event{"ev": "Panic", "who": name, "msg": fmt.Sprint(p), "stack": core.ShortStack()})
		}
	}
	produced := make(chan int, 1)
	wg.Add(2)
	go func() { // producer
		defer wg.Done()
		defer guard("producer")
		rng := rand.New(rand.NewSource(c.Seed))
		n := 0
		for n < events {
			select {
			case <-stop:
				produced <- n
				return
			default:
			}
			if err := produce(e, rng, c); err != nil {
				if qenv.IsFull(err) {
					time.Sleep(200 * time.Microsecond) // wait for the consumer to free space
					continue
				}
			}
			n++
			if rng.Intn(4) == 0 {
				e.Flush()
			}
			if rng.Intn(3) == 0 {
				runtime.Gosched()
			}
		}
		for k := 0; k < 2000; k++ {
			if e.Flush() == nil {
				break
			}
			time.Sleep(200 * time.Microsecond)
		}
		produced <- n
	}()
	consumed := 0
	go func() { // consumer
		defer wg.Done()
		defer guard("consumer")
		rng := rand.New(rand.NewSource(c.Seed + 1))
		idle := 0
		for consumed < events && idle < 200000 {
			select {
			case <-stop:
				return
			default:
			}
			got := consume(e, rng, 1+rng.Intn(8), true)
			consumed += got
			if got == 0 {
				idle++
				runtime.Gosched()
				if idle%50 == 0 {
					time.Sleep(100 * time.Microsecond)
				}
			} else {
				idle = 0
			}
		}
	}()
	done := make(chan struct{})
	go func() { wg.Wait(); close(done) }()
	select {
	case <-done:
		e.Counters()
		e.Close()
	case <-time.After(90 * time.Second):
		close(stop)
		e.Emit(core.Event{"ev": "Hang", "consumed": consumed})
	}
	tr.Events = e.Events()
	return tr
}

// CheckC13: concurrent producer and consumer.
func CheckC13(r *core.Run) {
	defer explorePQ(r)()
	r.Rule = "one goroutine drives the Writer (Write/Next/Flush with random chunking), another the Reader and ACK on the same queue (bounded and unbounded files, so that full-file retries occur); the interleaved execution is recorded in real order (flush/ACK effects are linearised at the store's commit/switched hook) and judged by PQTrace.tla: exact event sequence in order, ACK never beyond what was flushed, callbacks, no panic, no hang (watchdog); distinct = configurations/seeds"
	r.Assume("data-race freedom is not decided by the specification; the concurrent runs are additionally executed by a race-detector build when a C toolchain for cgo is available (see evidence key race_build)")
	n := r.Pick(16, 80)
	cfgs := pqCfgs(r, "c13", n, func(i int, c *QCfg) {
		c.ReopenPct, c.MidReopen, c.FaultPct = 0, 0, 0
		c.LagMax = 0
		if i%3 == 0 {
			c.MaxPages, c.BigPct = 64, 30
		} else {
			c.MaxPages = 0
		}
	})
	traces := make([]*core.Trace, len(cfgs))
	var wg sync.WaitGroup
	sem := make(chan struct{}, 6)
	for i, c := range cfgs {
		wg.Add(1)
		sem <- struct{}{}
		go func(i int, c QCfg) {
			defer wg.Done()
			defer func() { <-sem }()
			traces[i] = RunConcurrentQueue(c, r.Pick(150, 600))
		}(i, c)
	}
	wg.Wait()
	// steered interleavings: a read transaction spans a flush / ACK commit
	scfgs := pqCfgs(r, "c13-steer", r.Pick(10, 60), func(i int, c *QCfg) {
		c.ReopenPct, c.MidReopen, c.FaultPct, c.LagMax, c.MaxPages = 0, 0, 0, 0, 0
	})
	steered := make([]*core.Trace, len(scfgs))
	for i, c := range scfgs {
		wg.Add(1)
		sem <- struct{}{}
		go func(i int, c QCfg) {
			defer wg.Done()
			defer func() { <-sem }()
			steered[i] = RunSteeredQueue(c, r.Pick(8, 20))
		}(i, c)
	}
	wg.Wait()
	traces = append(traces, steered...)
	for _, t := range traces {
		r.AddDistinct(fmt.Sprint(t.Meta))
		r.AddEvals(int64(len(t.Events)))
	}
	pqSample(r, traces)
	judgePQ(r, traces, "C05", "C06", "C12", "C17")
	runRaceBuild(r)
}

func raceC13() {
	r, _ := core.NewRun("C13", "quick", 1)
	cfgs := pqCfgs(r, "c13-race", 6, func(i int, c *QCfg) {
		c.ReopenPct, c.MidReopen, c.FaultPct, c.LagMax = 0, 0, 0, 0
		if i%3 == 0 {
			c.MaxPages, c.BigPct = 64, 30
		}
	})
	for _, c := range cfgs {
		RunConcurrentQueue(c, 150)
	}
}

// runRaceBuild executes the race-detector build of the harness for the
// property and reports data races (real behaviour of the code under test).
func runRaceBuild(r *core.Run) {
	bin := os.Getenv("VERIF_RACE_BIN")
	if bin == "" {
		r.Extra["race_build"] = "not available (no cgo toolchain); data-race clause not examined"
		return
	}
	ctx, cancel := context.WithTimeout(context.Background(), 5*time.Minute)
	defer cancel()
	cmd := exec.CommandContext(ctx, bin, r.Prop, "race")
	cmd.Env = append(os.Environ(), "GORACE=halt_on_error=0 exitcode=0")
	var out bytes.Buffer
	cmd.Stdout, cmd.Stderr = &out, &out
	err := cmd.Run()
	text := out.String()
	n := strings.Count(text, "WARNING: DATA RACE")
	r.Extra["race_build"] = fmt.Sprintf("executed, %d data race reports", n)
	if ctx.Err() != nil {
		r.Break("race build timed out")
		return
	}
	if err != nil && n == 0 {
		r.Break("race build failed: %v\n%s", err, lastLines(text, 15))
		return
	}
	if n > 0 {
		// signature: the first two go-txfile frames of the first report
		var frames []string
		for _, l := range strings.Split(text, "\n") {
			l = strings.TrimSpace(l)
			if strings.HasPrefix(l, "github.com/elastic/go-txfile") && len(frames) < 2 {
				if i := strings.Index(l, "("); i > 0 {
					l = l[:i]
				}
				frames = append(frames, l)
			}
		}
		i := strings.Index(text, "WARNING: DATA RACE")
		rep := text[i:]
		if len(rep) > 3000 {
			rep = rep[:3000]
		}
		path := r.SaveReplay("race-report.txt", []byte(text))
		r.Violate(core.Violation{Signature: "race:" + strings.Join(frames, "|"), What: "data race reported by the race-detector build of the concurrent driver:\n" + rep, Replay: path})
	}
}

func lastLines(s string, n int) string {
	l := strings.Split(strings.TrimRight(s, "\n"), "\n")
	if len(l) > n {
		l = l[len(l)-n:]
	}
	return strings.Join(l, "\n")
}

// RunSteeredQueue holds the consumer inside a read transaction while the
// producer's flush commit is waiting for the exclusive lock (and vice versa
// for ACK), using the gates on the store's hook points.
func RunSteeredQueue(c QCfg, rounds int) *core.Trace {
	rng := rand.New(rand.NewSource(c.Seed))
	e := qenv.New(c.Name, txfile.Options{PageSize: c.PageSize, MaxSize: c.MaxPages * uint64(c.PageSize)}, c.WriteBuffer)
	tr := &core.Trace{Name: c.Name, Meta: c.String() + fmt.Sprintf(" steered rounds=%d", rounds)}
	defer func() {
		if p := recover(); p != nil {
			e.Emit(core.Event{"ev": "Panic", "msg": fmt.Sprint(p), "stack": core.ShortStack()})
		}
		tr.Events = e.Events()
	}()
	if err := e.Open(true); err != nil {
		return tr
	}
	prod, cons := core.Spawn("producer"), core.Spawn("consumer")
	defer prod.Drain()
	defer cons.Drain()
	const tmo = 20 * time.Second
	wait := func(p *core.Proc, want string) bool {
		got, ok := p.Wait(tmo)
		if !ok || got != want {
			e.Emit(core.Event{"ev": "Hang", "who": p.Name, "wanted": want, "got": got})
			return false
		}
		return true
	}
	guard := func(fn func()) func() {
		return func() {
			defer func() {
				if p := recover(); p != nil {
					e.Emit(core.Event{"ev": "Panic", "msg": fmt.Sprint(p), "stack": core.ShortStack()})
				}
			}()
			fn()
		}
	}
	// some events to start with
	prod.Do(guard(func() {
		for i := 0; i < 3; i++ {
			produce(e, rng, c)
		}
		e.Flush()
	}))
	if !wait(prod, "ret") {
		return tr
	}
	for round := 0; round < rounds; round++ {
		// the consumer opens a read transaction and reads a little
		cons.Do(guard(func() {
			if e.RBegin() != nil {
				return
			}
			if size, err := e.RNext(); err == nil && size > 0 {
				e.RRead(1 + rng.Intn(size))
			}
		}))
		if !wait(cons, "ret") {
			return tr
		}
		// the producer flushes new events; its commit is durable and now has to wait for the reader
		prod.Do(guard(func() {
			for i := 0; i < 1+rng.Intn(4); i++ {
				produce(e, rng, c)
			}
			e.Flush()
		}), "commit/alloc-switched")
		got, ok := prod.Wait(tmo)
		if !ok {
			e.Emit(core.Event{"ev": "Hang", "who": "producer"})
			return tr
		}
		blocked := got == "commit/alloc-switched"
		if blocked {
			prod.Release() // runs into exclusive.Lock(): blocked by the reader
			time.Sleep(300 * time.Microsecond)
		}
		// meanwhile the consumer keeps reading inside its (old) snapshot
		cons.Do(guard(func() {
			e.Available()
			for k := 0; k < 200; k++ {
				size, err := e.RNext()
				if err != nil || size <= 0 {
					break
				}
				left := size
				for left > 0 {
					r, err := e.RRead(1 + rng.Intn(left))
					if err != nil || r <= 0 {
						break
					}
					left -= r
				}
			}
			e.Available()
			e.RDone()
		}))
		if !wait(cons, "ret") {
			return tr
		}
		if blocked && !wait(prod, "ret") {
			return tr
		}
		// ACK transaction while nobody reads, then an ACK whose commit waits for a reader
		cons.Do(guard(func() {
			consume(e, rng, 2+rng.Intn(6), true)
			if e.RBegin() == nil {
				e.RNext()
			}
		}))
		if !wait(cons, "ret") {
			return tr
		}
		prod.Do(guard(func() {
			produce(e, rng, c)
			e.Flush()
		}), "commit/alloc-switched")
		if got, ok := prod.Wait(tmo); ok && got == "commit/alloc-switched" {
			prod.Release()
			time.Sleep(300 * time.Microsecond)
			cons.Do(guard(func() {
				for k := 0; k < 3; k++ {
					size, err := e.RNext()
					if err != nil || size <= 0 {
						break
					}
					e.RRead(size)
				}
				e.RDone()
			}))
			if !wait(cons, "ret") || !wait(prod, "ret") {
				return tr
			}
		} else if !ok {
			e.Emit(core.Event{"ev": "Hang", "who": "producer"})
			return tr
		} else {
			cons.Do(guard(func() { e.RDone() }))
			if !wait(cons, "ret") {
				return tr
			}
		}
	}
	cons.Do(guard(func() {
		for k := 0; k < 500; k++ {
			if consume(e, rng, 20, true) == 0 {
				break
			}
		}
		e.Counters()
	}))
	wait(cons, "ret")
	e.Close()
	return tr
}
