package checks

import (
	"fmt"
	"math/rand"

	txfile "github.com/elastic/go-txfile"

	"verif/core"
	"verif/fenv"
)

// CheckC14: changing the maximum size on open.
func CheckC14(r *core.Run) {
	defer exploreResize(r)()
	r.Rule = "random histories on bounded and unbounded files in which the file is closed and opened again with FlagUpdMaxSize and a larger / smaller / unbounded maximum size (with and without Prealloc) at random points, followed by further transactions, capacity filling and plain reopens; TxTrace.tla judges: root and contents unchanged (ResizeKeepsState, ReopenStable, every read), new limit persisted and in force, lock idle after Open (a reader and a writer get through under a watchdog), Conservation with the new limit (exactly the additional pages become allocatable), extent bound after shrinking; explorer: TxFile.tla with ResizeHdr/ResizeSync, the forced release commit and the release of free pages beyond the limit in every commit (all invariants incl. CrashSafe and ReopenStable, GrowsWithinLimit, ResizeKeepsModel); distinct = configurations/seeds"
	sizes := []uint64{64, 70, 96, 128, 200, 0, 65, 80}
	cfgs := baseCfgs(r, "c14", r.Pick(30, 200), func(i int, c *HistCfg) {
		c.Txs = r.Pick(40, 80)
		c.ReopenPct = 10
		c.KeepSmall = 90
		c.BigAlloc = 8
		c.Overflow = i%3 == 0 // transactions that may use the overflow area (what the queue's ACK does)
		c.MaxPages = sizes[i%len(sizes)]
		rng := rand.New(rand.NewSource(c.Seed + 77))
		c.OnTxEnd = func(e *fenv.Env, n int) {
			if rng.Intn(6) != 0 {
				return
			}
			nm := sizes[rng.Intn(len(sizes))] * uint64(e.PS)
			if err := e.Resize(nm, nm > 0 && rng.Intn(3) == 0); err != nil {
				panic(fmt.Sprintf("resize failed: %v", err))
			}
			// the returned File accepts read and write transactions without blocking
			e.ReadAll(fmt.Sprintf("after-resize-%d", n))
		}
	})
	traces := histories(r, cfgs)
	// fixed scenarios: live pages beyond the new limit, prealloc after shrink
	traces = append(traces, c14Scenarios()...)
	sampleTrace(r, traces)
	judgeTx(r, traces, reportOpts{Mine: []string{"C03", "C09", "C10", "C11"}})
}

func c14Scenarios() []*core.Trace {
	var out []*core.Trace
	ps := uint64(1024)
	type step struct {
		max      uint64
		prealloc bool
	}
	seqs := [][]step{
		{{50 * 2, false}, {64, true}},             // shrink, then grow with prealloc
		{{64, false}, {96, true}, {64, false}},    // shrink below the live pages, grow with prealloc, shrink
		{{0, false}, {96, false}, {200, true}},    // unbounded, bounded again, grow with prealloc
		{{200, true}, {70, false}, {70, true}},
	}
	// shrink with postponed truncation, full data area, then overflow transactions
	out = append(out, scenario("c14-scen-overflow", txfile.Options{PageSize: uint32(ps), MaxSize: 128 * ps, InitMetaArea: 4}, false, func(e *fenv.Env) {
		// the pre-sized meta area keeps the list pages at the start of the file: the free pages
		// at the end can be released by the shrink, the data area then ends exactly at the limit
		mustBegin(e, txfile.TxOptions{})
		ids, _ := e.Alloc(88) // ids 6..93
		for _, id := range ids {
			e.Set(id, 4)
		}
		e.Commit()
		mustBegin(e, txfile.TxOptions{})
		for _, id := range ids[58:] { // keep ids 6..63
			e.Free(id)
		}
		e.Commit()
		if err := e.Resize(64*ps, false); err != nil {
			panic("resize failed")
		}
		e.ReadAll("r0")
		for k := 0; k < 6; k++ {
			mustBegin(e, txfile.TxOptions{EnableOverflowArea: true, WALLimit: 1000})
			e.Set(ids[2+k], 4)
			e.Set(ids[20+k], 2)
			e.Commit()
			e.ReadAll(fmt.Sprintf("o%d", k))
			if k%2 == 1 {
				if err := e.Reopen(txfile.Options{}); err != nil {
					panic("reopen failed")
				}
				e.ReadAll(fmt.Sprintf("p%d", k))
			}
		}
	}))
	for si, seq := range seqs {
		seq := seq
		out = append(out, scenario(fmt.Sprintf("c14-scen-%d", si), txfile.Options{PageSize: uint32(ps), MaxSize: 128 * ps}, false, func(e *fenv.Env) {
			mustBegin(e, txfile.TxOptions{})
			ids, _ := e.Alloc(78) // live pages up to id 79
			for i, id := range ids {
				if i%7 == 0 || i > 70 {
					e.Set(id, 4)
				}
			}
			e.SetRoot(ids[77])
			e.Commit()
			for k, st := range seq {
				if err := e.Resize(st.max*ps, st.prealloc); err != nil {
					panic("resize failed")
				}
				e.ReadAll(fmt.Sprintf("r%d", k))
				mustBegin(e, txfile.TxOptions{})
				if n, err := e.Alloc(2); err == nil {
					e.Set(n[0], 4)
				}
				e.Free(ids[10+k])
				e.Commit()
				e.ReadAll(fmt.Sprintf("s%d", k))
				if err := e.Reopen(txfile.Options{}); err != nil {
					panic("reopen failed")
				}
				e.ReadAll(fmt.Sprintf("t%d", k))
			}
		}))
	}
	return out
}

var _ = core.Event{}
