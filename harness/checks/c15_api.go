package checks

import (
	"fmt"
	"strings"
	"sync"
	"time"

	txfile "github.com/elastic/go-txfile"

	"verif/core"
	"verif/fenv"
	"verif/qenv"
	"verif/simdisk"
)

// C15: misuse is an error, never a panic, and changes nothing. TLC enumerates
// the transitions of Api.tla (ApiReplay prints one path per transition); each
// path is executed on the real code and ApiTrace.tla judges every result.

type apiStep struct{ M, Exp string }

func parseApiPath(s string) []apiStep {
	var out []apiStep
	for _, part := range strings.Split(strings.TrimSuffix(s, ","), ",") {
		if part == "" {
			continue
		}
		f := strings.SplitN(part, ":", 2)
		out = append(out, apiStep{f[0], f[1]})
	}
	return out
}

// guarded runs fn under recover and a watchdog.
func guarded(fn func() error) (res string, kinds []string, msg string) {
	type out struct {
		err   error
		panic interface{}
	}
	ch := make(chan out, 1)
	go func() {
		var o out
		defer func() {
			if p := recover(); p != nil {
				o.panic = p
			}
			ch <- o
		}()
		o.err = fn()
	}()
	select {
	case o := <-ch:
		if o.panic != nil {
			return "panic", []string{}, fmt.Sprint(o.panic)
		}
		if o.err == nil {
			return "ok", []string{}, ""
		}
		k := fenv.ErrKind(o.err)
		if k == "error" {
			k = qenv.ErrKind(o.err)
		} else if qk := qenv.ErrKind(o.err); qk != "error" {
			k += "+" + qk
		}
		return "error", strings.Split(k, "+"), o.err.Error()
	case <-time.After(15 * time.Second):
		return "hang", []string{}, "no return within 15s"
	}
}

type apiTxReplayer struct {
	e      *fenv.Env
	tx     *txfile.Tx
	pg     *txfile.Page
	helper *txfile.Tx // a write transaction of "somebody else" that extended the file without committing
	beyond uint64     // id of a page that only exists in the helper transaction
	valid  uint64
	fail  bool
	mu    sync.Mutex
}

func newApiTxReplayer(name string) (*apiTxReplayer, error) {
	a := &apiTxReplayer{}
	a.e = fenv.New(name, txfile.Options{PageSize: 1024, MaxSize: 128 * 1024})
	a.e.Record = false
	a.e.Disk.Fault = func(kind string, nth, idx int) simdisk.FaultMode {
		a.mu.Lock()
		defer a.mu.Unlock()
		if a.fail && (kind == simdisk.OpWrite || kind == simdisk.OpSync) {
			return simdisk.FailBefore
		}
		return simdisk.NoFault
	}
	if err := a.e.Open(nil, 0); err != nil {
		return nil, err
	}
	e := a.e
	e.Begin(txfile.TxOptions{})
	ids, _ := e.Alloc(4)
	for _, id := range ids {
		e.Set(id, 4)
	}
	e.SetRoot(ids[0])
	e.Commit()
	e.Begin(txfile.TxOptions{})
	e.Set(ids[1], 4) // overwrite mapping
	e.Commit()
	a.valid = ids[2]
	return a, nil
}

func (a *apiTxReplayer) endHelper() {
	if a.helper != nil {
		a.helper.Rollback()
		a.helper, a.beyond = nil, 0
	}
}

// digest of everything a misuse call must leave alone
func (a *apiTxReplayer) digest() string {
	f := a.e.F
	s := fmt.Sprint(f.VerifSnapshot(false))
	if a.tx != nil {
		s += fmt.Sprint(a.tx.VerifTxSnapshot(), a.tx.Root())
	}
	if a.pg != nil {
		s += fmt.Sprint(a.pg.ID(), a.pg.Dirty())
	}
	return s
}

func (a *apiTxReplayer) call(m string) func() error {
	f := a.e.F
	ps := f.PageSize()
	switch m {
	case "Begin":
		return func() error { a.endHelper(); tx, err := f.Begin(); a.tx, a.pg = tx, nil; return err }
	case "BeginRO":
		return func() error {
			a.endHelper()
			// another write transaction has allocated pages past the committed end of the file
			if h, err := f.Begin(); err == nil {
				if pgs, err := h.AllocN(3); err == nil {
					a.beyond = uint64(pgs[2].ID())
				}
				a.helper = h
			}
			tx, err := f.BeginReadonly()
			a.tx, a.pg = tx, nil
			return err
		}
	case "Commit":
		return func() error { return a.tx.Commit() }
	case "CommitFailing":
		return func() error {
			a.mu.Lock()
			a.fail = true
			a.mu.Unlock()
			defer func() { a.mu.Lock(); a.fail = false; a.mu.Unlock() }()
			return a.tx.Commit()
		}
	case "Rollback":
		return func() error { return a.tx.Rollback() }
	case "Close":
		return func() error { return a.tx.Close() }
	case "Alloc":
		return func() error {
			pg, err := a.tx.Alloc()
			if err == nil {
				a.pg = pg
			}
			return err
		}
	case "PageValid":
		return func() error {
			pg, err := a.tx.Page(txfile.PageID(a.valid))
			if err == nil && a.pg == nil {
				a.pg = pg
			}
			return err
		}
	case "PageOutOfRange":
		return func() error {
			if _, err := a.tx.Page(1 << 40); err == nil {
				return nil
			}
			if a.helper != nil && a.beyond != 0 && a.tx.Readonly() {
				// a page that only exists in another, uncommitted transaction
				if _, err := a.tx.Page(txfile.PageID(a.beyond)); err == nil {
					return nil
				}
			}
			if _, err := a.tx.Page(1); err == nil {
				return nil
			}
			_, err := a.tx.Page(0)
			return err
		}
	case "PageFreed":
		return func() error {
			id := txfile.PageID(a.valid)
			if a.pg != nil {
				id = a.pg.ID()
			}
			_, err := a.tx.Page(id)
			return err
		}
	case "RootPage":
		return func() error { _, err := a.tx.RootPage(); return err }
	case "Flush":
		return func() error { return a.tx.Flush() }
	case "Checkpoint":
		return func() error { return a.tx.CheckpointWAL() }
	case "PageSize":
		return func() error { a.tx.PageSize(); a.tx.Root(); a.tx.Active(); a.tx.Readonly(); a.tx.Writable(); return nil }
	case "Bytes":
		return func() error { _, err := a.pg.Bytes(); return err }
	case "Load":
		return func() error { return a.pg.Load() }
	case "SetBytes":
		return func() error { return a.pg.SetBytes(make([]byte, ps)) }
	case "SetBytesOversize":
		return func() error { return a.pg.SetBytes(make([]byte, ps+1)) }
	case "MarkDirty":
		return func() error { return a.pg.MarkDirty() }
	case "Free":
		return func() error { return a.pg.Free() }
	case "PFlush":
		return func() error { return a.pg.Flush() }
	}
	return func() error { return fmt.Errorf("unknown method %s", m) }
}

func runApiTxPath(name string, steps []apiStep) *core.Trace {
	tr := &core.Trace{Name: name}
	a, err := newApiTxReplayer(name)
	if err != nil {
		tr.Events = []core.Event{{"ev": "OpenFailed"}}
		return tr
	}
	for _, s := range steps {
		before := a.digest()
		res, kinds, msg := guarded(a.call(s.M))
		ev := core.Event{"ev": "Call", "m": s.M, "res": res, "kinds": kinds, "msg": msg}
		if res == "hang" {
			ev["unchanged"] = false
			tr.Events = append(tr.Events, ev)
			return tr // the goroutine is stuck: do not touch the file any more
		}
		ev["unchanged"] = a.digest() == before
		tr.Events = append(tr.Events, ev)
	}
	// leave no transaction open, then close the file
	a.endHelper()
	if a.tx != nil {
		guarded(func() error { return a.tx.Close() })
	}
	done := make(chan struct{})
	go func() { a.e.Close(); close(done) }()
	select {
	case <-done:
	case <-time.After(15 * time.Second):
		tr.Events = append(tr.Events, core.Event{"ev": "Call", "m": "FileClose", "res": "hang", "kinds": []string{}, "unchanged": false})
	}
	return tr
}

func runApiQPath(name string, steps []apiStep) *core.Trace {
	tr := &core.Trace{Name: name}
	e := qenv.New(name, txfile.Options{PageSize: 1024, MaxSize: 256 * 1024}, 0)
	if err := e.Open(true); err != nil {
		tr.Events = []core.Event{{"ev": "OpenFailed"}}
		return tr
	}
	q, w, r := e.Q, e.W, e.R
	pending := func() string {
		p, err := q.Pending()
		return fmt.Sprint(p, err)
	}
	for _, s := range steps {
		before := pending()
		var fn func() error
		switch s.M {
		case "QWrite1":
			fn = func() error {
				if _, err := w.Write(make([]byte, 10)); err != nil {
					return err
				}
				if err := w.Next(); err != nil {
					return err
				}
				return w.Flush()
			}
		case "QFlush":
			fn = func() error { return w.Flush() }
		case "RBegin":
			fn = func() error { return r.Begin() }
		case "RDone":
			fn = func() error { r.Done(); return nil }
		case "RNext":
			fn = func() error { _, err := r.Next(); return err }
		case "RRead":
			fn = func() error { _, err := r.Read(make([]byte, 8)); return err }
		case "RAvailable":
			fn = func() error { _, err := r.Available(); return err }
		case "Ack0":
			fn = func() error { return q.ACK(0) }
		case "Ack1":
			fn = func() error { return q.ACK(1) }
		case "AckTooMany":
			fn = func() error { return q.ACK(1000) }
		case "QClose":
			fn = func() error { return q.Close() }
		case "QCloseFailing":
			fn = func() error {
				// an event is buffered; the flush done by Close hits an I/O error
				if _, err := w.Write(make([]byte, 10)); err != nil {
					return nil
				}
				if err := w.Next(); err != nil {
					return nil
				}
				e.Disk.Fault = func(kind string, nth, idx int) simdisk.FaultMode {
					if kind == simdisk.OpWrite || kind == simdisk.OpSync {
						return simdisk.FailBefore
					}
					return simdisk.NoFault
				}
				defer func() { e.Disk.Fault = nil }()
				return q.Close()
			}
		default:
			fn = func() error { return fmt.Errorf("unknown method %s", s.M) }
		}
		res, kinds, msg := guarded(fn)
		ev := core.Event{"ev": "Call", "m": s.M, "res": res, "kinds": kinds, "msg": msg}
		if res == "hang" {
			ev["unchanged"] = false
			tr.Events = append(tr.Events, ev)
			return tr
		}
		ev["unchanged"] = pending() == before
		tr.Events = append(tr.Events, ev)
	}
	guarded(func() error { r.Done(); return nil })
	e.Q = nil
	e.Close()
	return tr
}

// CheckC15: misuse is an error, never a panic.
func CheckC15(r *core.Run) {
	r.Rule = "TLC enumerates every transition of Api.tla (Tx in {rw, ro, committed, rolled back, closed, failed} x 14 methods, Page in {new, new+bytes, clean, loaded, dirty, flushed, freed, of a finished transaction} x 7 methods, Reader/Writer/ACK of an open and a closed queue x 11 methods); ApiReplay prints one path per transition, each path is executed on the real code (every call under recover() and a watchdog, digest of the file / transaction / page / queue state before and after), and ApiTrace.tla judges the observed error kind against Api.tla!Expect and MisuseChangesNothing; distinct = transitions"
	var traces = map[string][]*core.Trace{}
	for _, part := range []string{"tx", "q"} {
		gen, err := core.RunTLC(r.Scratch, core.TLCOpts{Module: "ApiReplay", Config: "ApiReplay_" + part + ".cfg", Workers: 1, Timeout: 10 * time.Minute, HeapMB: 2048})
		if err != nil || !gen.OK {
			r.Break("ApiReplay generator failed: %v %s", err, tail(gen))
			return
		}
		r.States += gen.Distinct
		r.Transitions += gen.Generated
		var paths []string
		for _, p := range gen.Prints {
			if strings.HasPrefix(p, "@P ") {
				paths = append(paths, strings.TrimPrefix(p, "@P "))
			}
		}
		gen.Cleanup()
		r.SetExtra("transitions_"+part, len(paths))
		paths = maximalPaths(paths)
		r.SetExtra("replayed_paths_"+part, len(paths))
		out := make([]*core.Trace, len(paths))
		var wg sync.WaitGroup
		sem := make(chan struct{}, 12)
		for i, ps := range paths {
			wg.Add(1)
			sem <- struct{}{}
			go func(i int, ps string, part string) {
				defer wg.Done()
				defer func() { <-sem }()
				name := fmt.Sprintf("c15-%s-%d", part, i)
				steps := parseApiPath(ps)
				var tr *core.Trace
				if part == "tx" {
					tr = runApiTxPath(name, steps)
				} else {
					tr = runApiQPath(name, steps)
				}
				tr.Meta = ps
				out[i] = tr
			}(i, ps, part)
		}
		wg.Wait()
		for _, t := range out {
			r.AddDistinct(fmt.Sprint(t.Meta))
			r.AddEvals(int64(len(t.Events)))
		}
		traces[part] = out
		if len(out) > 0 {
			r.AddSample(map[string]interface{}{"path": out[len(out)/2].Meta, "observed": out[len(out)/2].Events})
		}
	}
	for _, part := range []string{"tx", "q"} {
		runSelfTestN(r, "ApiTrace", "ApiTrace_"+part+".cfg", traces[part], apiMutants())
		rej := r.Judge(core.JudgeOpts{Module: "ApiTrace", Config: "ApiTrace_" + part + ".cfg", Timeout: 10 * time.Minute, HeapMB: 2048}, traces[part])
		for _, d := range r.TakeDevs() {
			name := d.Kind[len("dev:"):]
			path := r.SaveReplay(safeName(d.Trace.Name)+".ndjson", d.Trace.Serialize())
			r.Violate(core.Violation{Signature: fmt.Sprintf("api:%s:%s:%v", name, d.Event["m"], d.Event["res"]), What: d.Describe() + fmt.Sprintf(" [path %v]", d.Trace.Meta), Replay: path})
		}
		for _, rj := range rej {
			r.Break("api trace could not be followed: %s", rj.Describe())
		}
	}
}
