package checks

import (
	"fmt"
	"math/rand"
	"sync"
	"time"

	txfile "github.com/elastic/go-txfile"

	"verif/core"
	"verif/fenv"
)

// logicalKey is a canonical rendering of a logical state (root + all live pages).
func logicalKey(root uint64, pages [][2]interface{}) string {
	return fmt.Sprint(root, pages)
}

type hdrCase struct {
	name string
	img  []byte
}

// openDamaged opens an image with the real code and classifies the outcome.
func openDamaged(img []byte, states map[string]string) (res, got string) {
	defer func() {
		if p := recover(); p != nil {
			res, got = "panic", fmt.Sprint(p)
		}
	}()
	rec, f, _ := recoverImage(img, "hdr")
	if f != nil {
		f.Close()
	}
	if !rec.ok {
		if len(rec.err) > 6 && rec.err[:6] == "panic:" {
			return "panic", rec.err
		}
		return "error", rec.err
	}
	label, ok := states[logicalKey(rec.root, rec.pages)]
	if !ok {
		label = "X"
	}
	return "ok", label
}

// CheckC16: a damaged header never wins.
func CheckC16(r *core.Run) {
	r.Rule = "explorer: Header.tla (all slot-state pairs over a txid ring incl. wrap-around); conformance: for committed histories (active slot 0 and 1, txids incl. 2^64-1 -> 0) every single-bit flip of the 84 header bytes of either slot, every byte-prefix tear of a header write, zeroed / garbage / multi-byte damage, a byte copy of the other header, and the same with both slots damaged is applied to the real file image; the real Open result (ok/error/panic) and the logical state read back are judged by HeaderTrace.tla against the validity and age computed by an independent decoder; distinct = distinct damaged images"
	r.Assume("validity and relative age of the header pages are computed by the harness' own FNV-1a / serial-number implementation")
	r.Explore(core.TLCOpts{Module: "MC_Header", Config: "MC_Header.cfg", Timeout: 5 * time.Minute, HeapMB: 2048, Workers: 4, Coverage: r.Thorough()})

	rng := rand.New(rand.NewSource(r.Seed))
	var events []core.Event
	var mu sync.Mutex
	cases := 0
	// base histories: number of commits decides which slot is active; txid rewriting covers wrap-around
	type base struct {
		commits int
		txidHi  bool
		ps      int // page size of the file (the second header lies at this offset)
	}
	bases := []base{{2, false, 1024}, {3, false, 1024}, {3, true, 1024}, {4, true, 1024},
		{3, false, 4096}, {2, false, 128 * 1024}}
	if r.Thorough() {
		bases = append(bases, base{5, false, 1024}, base{6, true, 1024}, base{3, true, 64 * 1024}, base{3, false, 256 * 1024})
	}
	for bi, b := range bases {
		e := fenv.New(fmt.Sprintf("c16-%d", bi), txfile.Options{PageSize: uint32(b.ps), MaxSize: 64 * uint64(b.ps)})
		e.Record = false
		if err := e.Open(nil, 0); err != nil {
			r.Break("c16: open: %v", err)
			return
		}
		states := map[string]string{}
		var imgs [][]byte
		for c := 0; c < b.commits; c++ {
			e.Begin(txfile.TxOptions{})
			ids, _ := e.Alloc(2)
			for _, id := range ids {
				e.Set(id, 4)
			}
			if c > 0 {
				live := sortedKeys(e.Live)
				e.Set(live[rng.Intn(len(live))], 2) // overwrite: the two states differ in contents too
			}
			e.SetRoot(ids[0])
			if err := e.Commit(); err != nil {
				r.Break("c16: commit: %v", err)
				return
			}
			root, pages, _, _ := fenv.ReadLogical(e.F)
			states[logicalKey(root, pages)] = fmt.Sprintf("S%d", c+1)
			vol, _ := e.Disk.Snapshot()
			imgs = append(imgs, vol)
		}
		e.Close()
		img := imgs[len(imgs)-1]
		ps := b.ps
		// state labels of the two slots
		h0, h1 := fenv.DecodeHeader(img[0:]), fenv.DecodeHeader(img[ps:])
		if b.txidHi {
			// move the transaction ids to the wrap-around: newer = 0 (or 1), older = 2^64-1 (or 0)
			newer, older := &h0, &h1
			if int64(h1.TxID-h0.TxID) > 0 {
				newer, older = &h1, &h0
			}
			if bi%2 == 0 {
				newer.TxID, older.TxID = 0, ^uint64(0)
			} else {
				newer.TxID, older.TxID = 1<<63+5, 1<<63+4
			}
			copy(img[0:], fenv.EncodeHeader(h0))
			copy(img[ps:], fenv.EncodeHeader(h1))
		}
		label := func(h fenv.Header) string {
			// the state a header describes: open an image in which only this header is valid
			return ""
		}
		_ = label
		// learn the state described by each slot by invalidating the other one
		slotState := [2]string{}
		established := true
		for s := 0; s < 2; s++ {
			tmp := append([]byte(nil), img...)
			o := (1 - s) * ps
			tmp[o] ^= 0xFF // magic destroyed
			res, got := openDamaged(tmp, states)
			if res != "ok" || got == "X" {
				// the library does not accept a header that is intact by the documented format
				// (or shows an unknown state): that is an observation to be judged, not a harness failure
				d0, d1 := fenv.DecodeHeader(tmp[0:]), fenv.DecodeHeader(tmp[ps:])
				mu.Lock()
				events = append(events, core.Event{"ev": "Open", "case": fmt.Sprintf("base%d/only-slot%d-intact", bi, s), "v0": d0.OK, "v1": d1.OK,
					"newer": 0, "s0": "S?", "s1": "S?", "res": res, "got": got})
				cases++
				mu.Unlock()
				established = false
				continue
			}
			slotState[s] = got
		}
		if !established {
			continue
		}
		var list []hdrCase
		add := func(name string, f func(b []byte)) {
			tmp := append([]byte(nil), img...)
			f(tmp)
			list = append(list, hdrCase{name, tmp})
		}
		add("intact", func(b []byte) {})
		for s := 0; s < 2; s++ {
			o := s * ps
			other := (1 - s) * ps
			for bit := 0; bit < fenv.HdrSize*8; bit++ {
				if !r.Thorough() && bit%3 != int(r.Seed+int64(s))%3 && bit/8 >= 12 {
					continue // quick: all bits of magic/version/pagesize, a third of the rest
				}
				bit := bit
				add(fmt.Sprintf("slot%d-bit%d", s, bit), func(b []byte) { b[o+bit/8] ^= 1 << uint(bit%8) })
			}
			for t := 1; t < fenv.HdrSize; t++ {
				t := t
				// torn write of this slot: first t bytes of a (newer) header over the current content
				add(fmt.Sprintf("slot%d-tear%d", s, t), func(b []byte) {
					nh := fenv.DecodeHeader(b[o:])
					nh.TxID += 2
					nh.Root = 7
					copy(b[o:o+t], fenv.EncodeHeader(nh)[:t])
				})
			}
			add(fmt.Sprintf("slot%d-zero", s), func(b []byte) {
				for i := 0; i < ps; i++ {
					b[o+i] = 0
				}
			})
			add(fmt.Sprintf("slot%d-copy-of-other", s), func(b []byte) { copy(b[o:o+ps], b[other:other+ps]) })
			for k := 0; k < r.Pick(20, 200); k++ {
				add(fmt.Sprintf("slot%d-rand%d", s, k), func(b []byte) {
					n := 1 + rng.Intn(8)
					for i := 0; i < n; i++ {
						b[o+rng.Intn(fenv.HdrSize)] = byte(rng.Intn(256))
					}
				})
			}
		}
		// both slots damaged
		for k := 0; k < r.Pick(40, 400); k++ {
			add(fmt.Sprintf("both-%d", k), func(b []byte) {
				b[rng.Intn(fenv.HdrSize)] ^= 1 << uint(rng.Intn(8))
				b[ps+rng.Intn(fenv.HdrSize)] ^= 1 << uint(rng.Intn(8))
			})
		}
		add("both-zero", func(b []byte) {
			for i := 0; i < 2*ps; i++ {
				b[i] = 0
			}
		})
		var wg sync.WaitGroup
		sem := make(chan struct{}, 12)
		evs := make([]core.Event, len(list))
		for i, c := range list {
			wg.Add(1)
			sem <- struct{}{}
			go func(i int, c hdrCase) {
				defer wg.Done()
				defer func() { <-sem }()
				d0, d1 := fenv.DecodeHeader(c.img[0:]), fenv.DecodeHeader(c.img[ps:])
				newer := 0
				if int64(d1.TxID-d0.TxID) > 0 {
					newer = 1
				}
				// a valid header of a torn write that completed describes a state we did not create:
				// label by contents: headers equal to the original ones keep their state label
				s0, s1 := slotState[0], slotState[1]
				if d0.OK && d0 != fenv.DecodeHeader(img[0:]) {
					s0 = "foreign"
				}
				if d1.OK && d1 != fenv.DecodeHeader(img[ps:]) {
					s1 = "foreign"
				}
				res, got := openDamaged(c.img, states)
				ev := core.Event{"ev": "Open", "case": fmt.Sprintf("base%d/%s", bi, c.name), "v0": d0.OK, "v1": d1.OK, "newer": newer,
					"s0": s0, "s1": s1, "res": res, "got": got}
				evs[i] = ev
			}(i, c)
		}
		wg.Wait()
		mu.Lock()
		for _, ev := range evs {
			// cases in which a fabricated (foreign) but valid header would have to win are outside
			// the property: skip them
			exp := ""
			switch {
			case ev["v0"] == true && ev["v1"] == true:
				if ev["newer"] == 0 {
					exp = ev["s0"].(string)
				} else {
					exp = ev["s1"].(string)
				}
			case ev["v0"] == true:
				exp = ev["s0"].(string)
			case ev["v1"] == true:
				exp = ev["s1"].(string)
			}
			if exp == "foreign" {
				continue
			}
			events = append(events, ev)
			cases++
			r.AddDistinct(fmt.Sprint(ev["case"]))
		}
		mu.Unlock()
	}
	r.AddEvals(int64(cases))
	r.SetExtra("damaged_images_opened", cases)
	if len(events) > 5 {
		r.AddSample(events[3])
		r.AddSample(events[len(events)/2])
	}
	tr := &core.Trace{Name: "c16-headers", Meta: "header damage enumeration", Events: events}
	runSelfTestN(r, "HeaderTrace", "HeaderTrace.cfg", []*core.Trace{tr}, headerMutants())
	rej := r.Judge(core.JudgeOpts{Module: "HeaderTrace", Config: "HeaderTrace.cfg", Timeout: 10 * time.Minute, HeapMB: 2048}, []*core.Trace{tr})
	for _, d := range r.TakeDevs() {
		name := d.Kind[len("dev:"):]
		// one violation per kind of damage
		kind := fmt.Sprint(d.Event["case"])
		path := r.SaveReplay("c16-headers.ndjson", tr.Serialize())
		r.Violate(core.Violation{Signature: "hdr:" + name, What: d.Describe() + " [" + kind + "]", Replay: path})
	}
	for _, rj := range rej {
		r.Break("header trace could not be followed: %s", rj.Describe())
	}
}
