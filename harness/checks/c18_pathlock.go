package checks

import (
	"errors"
	"fmt"
	"os"
	"path/filepath"
	"strings"
	"time"

	txfile "github.com/elastic/go-txfile"
	"github.com/elastic/go-txfile/txerr"

	"verif/core"
)

type failingFile struct {
	txfile.VerifFile
}

func (f failingFile) WriteAt(b []byte, off int64) (int, error) { return 0, errors.New("injected write failure") }
func (f failingFile) Sync(dataOnly bool) error                  { return errors.New("injected sync failure") }

type pathReplayer struct {
	path    string
	files   map[string]*txfile.File
	waiting map[string]chan openRes
	opts    txfile.Options
}

type openRes struct {
	f   *txfile.File
	err error
}

func classifyOpen(err error) string {
	if err == nil {
		return "ok"
	}
	if txerr.Is(txfile.LockFailed, err) {
		return "lockfailed"
	}
	return "error"
}

func openGuard(fn func() (*txfile.File, error)) (f *txfile.File, res string) {
	ch := make(chan openRes, 1)
	pan := make(chan interface{}, 1)
	go func() {
		defer func() {
			if p := recover(); p != nil {
				pan <- p
			}
		}()
		f, err := fn()
		ch <- openRes{f, err}
	}()
	select {
	case r := <-ch:
		return r.f, classifyOpen(r.err)
	case <-pan:
		return nil, "panic"
	case <-time.After(20 * time.Second):
		return nil, "hang"
	}
}

func (p *pathReplayer) step(act, h, want string) core.Event {
	ev := core.Event{"ev": "Path", "h": h, "a": act, "cause": ""}
	switch {
	case act == "Open" || act == "OpenRO":
		o := p.opts
		o.Readonly = act == "OpenRO"
		f, res := openGuard(func() (*txfile.File, error) { return txfile.Open(p.path, 0600, o) })
		if f != nil {
			p.files[h] = f
		}
		ev["res"] = res
	case act == "WaitCall":
		ch := make(chan openRes, 1)
		go func() {
			o := p.opts
			o.Flags |= txfile.FlagWaitLock
			f, err := txfile.Open(p.path, 0600, o)
			ch <- openRes{f, err}
		}()
		wait := 20 * time.Second
		if want == "held" {
			wait = 40 * time.Millisecond // it must still be blocked after the settle time
		}
		select {
		case r := <-ch:
			if r.f != nil {
				p.files[h] = r.f
				ev["res"] = "returned"
			} else {
				ev["res"] = classifyOpen(r.err)
			}
		case <-time.After(wait):
			if want == "held" {
				ev["res"] = "blocked"
				p.waiting[h] = ch
			} else {
				ev["res"] = "hang"
			}
		}
	case act == "Acq":
		ch, ok := p.waiting[h]
		if !ok {
			return nil // the waiting open returned at once (the path was free): no separate step
		}
		delete(p.waiting, h)
		select {
		case r := <-ch:
			if r.f != nil {
				p.files[h] = r.f
				ev["res"] = "returned"
			} else {
				ev["res"] = classifyOpen(r.err)
			}
		case <-time.After(20 * time.Second):
			ev["res"] = "hang"
		}
	case act == "Close":
		f := p.files[h]
		delete(p.files, h)
		done := make(chan error, 1)
		go func() { done <- f.Close() }()
		select {
		case <-done:
			ev["res"] = "ok"
		case <-time.After(20 * time.Second):
			ev["res"] = "hang"
		}
	case strings.HasPrefix(act, "Bad-"):
		cause := strings.TrimPrefix(act, "Bad-")
		ev["a"], ev["cause"] = "Bad", cause
		held := len(p.files) > 0
		switch cause {
		case "options":
			_, res := openGuard(func() (*txfile.File, error) {
				return txfile.Open(p.path, 0600, txfile.Options{PageSize: 1000})
			})
			ev["res"] = res
		case "headers":
			var saved []byte
			if !held {
				// both headers damaged (only possible while nobody has the file open)
				if b, err := os.ReadFile(p.path); err == nil && len(b) >= 2048 {
					saved = b
					c := append([]byte(nil), b...)
					c[3] ^= 0xFF
					c[1024+3] ^= 0xFF
					os.WriteFile(p.path, c, 0600)
				} else {
					// no file yet: garbage that is not a header at all
					os.WriteFile(p.path, make([]byte, 4096), 0600)
					saved = []byte{}
				}
			}
			f, res := openGuard(func() (*txfile.File, error) { return txfile.Open(p.path, 0600, p.opts) })
			if f != nil {
				p.files[h] = f // must not happen; the judge sees "ok"
			}
			ev["res"] = res
			if saved != nil {
				if len(saved) == 0 {
					os.Remove(p.path)
				} else {
					os.WriteFile(p.path, saved, 0600)
				}
			}
		case "io":
			txfile.VerifWrapFile = func(f txfile.VerifFile) txfile.VerifFile { return failingFile{f} }
			o := p.opts
			o.MaxSize += 64 * 1024 // forces an internal transaction on an existing file; a new file fails in its initialisation
			o.Flags |= txfile.FlagUpdMaxSize
			f, res := openGuard(func() (*txfile.File, error) { return txfile.Open(p.path, 0600, o) })
			txfile.VerifWrapFile = nil
			if f != nil {
				// a new limit equal to the stored one needs no write: treat as a normal open
				p.files[h] = f
			}
			ev["res"] = res
		}
	}
	return ev
}

func (p *pathReplayer) cleanup() {
	for _, ch := range p.waiting {
		go func(ch chan openRes) {
			select {
			case r := <-ch:
				if r.f != nil {
					r.f.Close()
				}
			case <-time.After(30 * time.Second):
			}
		}(ch)
	}
	for _, f := range p.files {
		f.Close()
	}
}

// CheckC18: the path lock is exclusive and always released.
func CheckC18(r *core.Run) {
	r.Rule = "explorer: PathLock.tla (3 handles: plain open, waiting open, failing opens, close); conformance: PathLockReplay prints one path per transition (incl. open after a failed open for each cause, open after close, acquire after wait), every path is executed with the real Open/Close on a real file in a temporary directory (failing opens: invalid options, both headers damaged / garbage file, injected write+sync failure during initialisation or the max-size update), and PathLockTrace.tla judges every result; distinct = transitions"
	r.Assume("the real OS file system and flock of this sandbox; a waiting open that the model says is blocked is given 40 ms to (wrongly) return")
	r.Explore(core.TLCOpts{Module: "MC_PathLock", Config: "MC_PathLock.cfg", Timeout: 5 * time.Minute, HeapMB: 2048, Workers: 4})
	gen, err := core.RunTLC(r.Scratch, core.TLCOpts{Module: "PathLockReplay", Config: map[bool]string{false: "PathLockReplay_q.cfg", true: "PathLockReplay_t.cfg"}[r.Thorough()], Workers: 1, Timeout: 10 * time.Minute, HeapMB: 2048})
	if err != nil || !gen.OK {
		r.Break("PathLockReplay generator failed: %v %s", err, tail(gen))
		return
	}
	var paths []string
	for _, p := range gen.Prints {
		if strings.HasPrefix(p, "@P ") {
			paths = append(paths, strings.TrimPrefix(p, "@P "))
		}
	}
	gen.Cleanup()
	r.SetExtra("transitions", len(paths))
	paths = maximalPaths(paths)
	r.SetExtra("replayed_paths", len(paths))
	dir, err := os.MkdirTemp("", "verif-c18-")
	if err != nil {
		r.Break("c18: %v", err)
		return
	}
	defer os.RemoveAll(dir)
	var traces []*core.Trace
	for i, ps := range paths {
		pr := &pathReplayer{path: filepath.Join(dir, fmt.Sprintf("f%d.dat", i)), files: map[string]*txfile.File{}, waiting: map[string]chan openRes{},
			opts: txfile.Options{PageSize: 1024, MaxSize: 128 * 1024}}
		tr := &core.Trace{Name: fmt.Sprintf("c18-path-%d", i), Meta: ps}
		for _, part := range strings.Split(strings.TrimSuffix(ps, ","), ",") {
			f := strings.SplitN(part, ":", 3)
			ev := pr.step(f[0], f[1], f[2])
			if ev == nil {
				continue
			}
			tr.Events = append(tr.Events, ev)
			if ev["res"] == "hang" || ev["res"] == "panic" {
				break
			}
		}
		pr.cleanup()
		os.Remove(pr.path)
		os.Remove(pr.path + ".lock")
		traces = append(traces, tr)
		r.AddDistinct(ps)
		r.AddEvals(int64(len(tr.Events)))
	}
	if len(traces) > 0 {
		r.AddSample(map[string]interface{}{"path": traces[len(traces)/2].Meta, "observed": traces[len(traces)/2].Events})
	}
	runSelfTestN(r, "PathLockTrace", "PathLockTrace.cfg", traces, pathLockMutants())
	rej := r.Judge(core.JudgeOpts{Module: "PathLockTrace", Config: "PathLockTrace.cfg", Timeout: 10 * time.Minute, HeapMB: 2048}, traces)
	for _, d := range r.TakeDevs() {
		name := d.Kind[len("dev:"):]
		path := r.SaveReplay(safeName(d.Trace.Name)+".ndjson", d.Trace.Serialize())
		r.Violate(core.Violation{Signature: fmt.Sprintf("pathlock:%s:%v:%v", name, d.Event["a"], d.Event["cause"]), What: d.Describe() + fmt.Sprintf(" [path %v]", d.Trace.Meta), Replay: path})
	}
	for _, rj := range rej {
		if strings.HasPrefix(rj.Kind, "invariant:") {
			path := r.SaveReplay(safeName(rj.Trace.Name)+".ndjson", rj.Trace.Serialize())
			r.Violate(core.Violation{Signature: "pathlock:" + rj.Kind, What: rj.Describe(), Replay: path})
		} else {
			r.Break("path lock trace could not be followed: %s", rj.Describe())
		}
	}
}
