package checks

import (
	"fmt"
	"math/rand"
	"os"
	"sync"
	"time"

	txfile "github.com/elastic/go-txfile"

	"verif/core"
	"verif/qenv"
	"verif/simdisk"
)

// QCfg parameterises a random producer/consumer history on one queue.
type QCfg struct {
	Tick        *int64     // progress counter for the watchdog (set by the caller)
	EnvOut      **qenv.Env // receives the environment as soon as it exists (the watchdog salvages the events of a hanging run)
	Name        string
	Seed        int64
	PageSize    uint32
	MaxPages    uint64
	WriteBuffer uint
	Steps       int
	ReopenPct   int  // per step probability (in 1/1000) of close+reopen
	Chunked     bool // split events over several Write calls, flush in the middle of events
	BigPct      int  // percentage of events larger than a page
	LagMax      int  // the consumer lets at most this many events pile up (0: no limit)
	FillUp      bool // producer runs until the file is full, then the consumer drains
	RecordIO    bool // record the I/O calls of the file (crash points)
	FaultPct    int  // percentage of explicit flushes that hit a transient injected I/O failure (then retried)
	MidReopen   int  // percentage of chunked events after whose first flushed part the queue is closed and reopened
}

func (c QCfg) String() string {
	return fmt.Sprintf("%s seed=%d ps=%d max=%d wbuf=%d steps=%d chunked=%v big=%d%% reopen=%d/1000 fill=%v",
		c.Name, c.Seed, c.PageSize, c.MaxPages, c.WriteBuffer, c.Steps, c.Chunked, c.BigPct, c.ReopenPct, c.FillUp)
}

// sizeClasses returns event sizes around the layout boundaries of the page size.
func sizeClasses(ps int) []int {
	p := ps - 28 // payload bytes per page
	return []int{1, 2, 3, 4, 5, 7, 8, 60, 100, 333, p - 9, p - 8, p - 5, p - 4, p - 3, p - 1, p, p + 1, p + 4,
		2*p - 8, 2*p - 4, 2 * p, 2*p + 1, 3*p - 4, 5*p + 17}
}

func pickSize(rng *rand.Rand, c QCfg) int {
	cl := sizeClasses(int(c.PageSize))
	p := int(c.PageSize) - 28
	if rng.Intn(100) < c.BigPct {
		return cl[len(cl)-8+rng.Intn(8)]
	}
	switch rng.Intn(3) {
	case 0:
		return cl[rng.Intn(len(cl)-8)]
	case 1:
		return 1 + rng.Intn(p/3)
	}
	return 1 + rng.Intn(200)
}

// produce writes one event (possibly in chunks, with a flush in the middle).
func produce(e *qenv.Env, rng *rand.Rand, c QCfg) error {
	size := pickSize(rng, c)
	left := size
	for left > 0 {
		n := left
		if c.Chunked && rng.Intn(2) == 0 {
			n = 1 + rng.Intn(left)
		}
		if err := e.Write(n); err != nil {
			// nothing was accepted: the caller may retry later after space was freed
			return err
		}
		left -= n
		if c.Chunked && left > 0 && rng.Intn(6) == 0 {
			if err := e.Flush(); err != nil {
				// keep writing: the buffer keeps the data
				_ = err
			}
			if c.MidReopen > 0 && rng.Intn(100) < c.MidReopen {
				// the producer goes away in the middle of an event: the unfinished event is dropped
				if err := e.Reopen(); err != nil {
					return err
				}
				return nil
			}
		}
	}
	return e.Next()
}

// consume reads up to n events in one read transaction (sometimes partially) and ACKs them.
func consume(e *qenv.Env, rng *rand.Rand, n int, ack bool) int {
	got, _ := consumeAck(e, rng, n, ack)
	return got
}

// consumeAck also returns the number of events it ACKed.
func consumeAck(e *qenv.Env, rng *rand.Rand, n int, ack bool) (int, int) {
	if e.RBegin() != nil {
		return 0, 0
	}
	if rng.Intn(3) == 0 {
		e.Available()
	}
	got := 0
	for i := 0; i < n; i++ {
		size, err := e.RNext()
		if err != nil || size <= 0 {
			break
		}
		got++
		mode := rng.Intn(10)
		switch {
		case mode == 0: // skip the event
		case mode == 1: // partial read, then skip
			e.RRead(1 + rng.Intn(size))
		default:
			left := size
			for left > 0 {
				k := left
				if rng.Intn(3) == 0 {
					k = 1 + rng.Intn(left)
				}
				r, err := e.RRead(k)
				if err != nil || r <= 0 {
					break
				}
				left -= r
			}
			if rng.Intn(4) == 0 {
				e.RRead(8) // at the end of the event: 0 bytes
			}
		}
		if rng.Intn(8) == 0 {
			e.Available()
		}
	}
	e.RDone()
	if ack && got > 0 {
		// finish the last event for the ACK bookkeeping: ACK only completed events
		k := got
		if rng.Intn(3) == 0 && k > 1 {
			k = 1 + rng.Intn(k)
		}
		// events beyond k that were consumed stay un-ACKed; the reader does not re-deliver them
		if e.ACK(k) == nil {
			return got, k
		}
	}
	return got, 0
}

// RunQueueHistory runs a random single-goroutine producer/consumer history.
func RunQueueHistory(c QCfg) (tr *core.Trace, env *qenv.Env) {
	rng := rand.New(rand.NewSource(c.Seed))
	e := qenv.New(c.Name, txfile.Options{PageSize: c.PageSize, MaxSize: c.MaxPages * uint64(c.PageSize)}, c.WriteBuffer)
	e.Tick = c.Tick
	if c.EnvOut != nil {
		*c.EnvOut = e
	}
	e.RecordIO = c.RecordIO
	tr = &core.Trace{Name: c.Name, Meta: c.String()}
	env = e
	defer func() {
		if p := recover(); p != nil {
			e.Emit(core.Event{"ev": "Panic", "msg": fmt.Sprint(p), "stack": core.ShortStack()})
		}
		tr.Events = e.Events()
	}()
	if err := e.Open(true); err != nil {
		return
	}
	unread := 0 // events flushed but not consumed yet (driver estimate)
	for i := 0; i < c.Steps; i++ {
		r := rng.Intn(100)
		if c.FillUp && r >= 60 && r < 88 && rng.Intn(3) > 0 {
			r = 0 // slow consumer
		}
		switch {
		case r < 50:
			if err := produce(e, rng, c); err != nil && qenv.IsFull(err) {
				// full: drain something, then flush what is buffered
				consume(e, rng, 5+rng.Intn(20), true)
				e.Flush()
			}
			unread++
		case r < 60:
			if c.FaultPct > 0 && rng.Intn(100) < c.FaultPct {
				// a transient I/O error while the flush commits; the retry must make the events durable
				k, n := rng.Intn(3), 0
				kind := []string{"w", "w", "sync"}[rng.Intn(3)]
				if kind == "sync" {
					// never the final sync of the commit: a failed final sync may leave the new header
					// on disk (known finding of C08, reported there); C06 does not quantify over I/O
					// failures at all - the transient failures only exercise the retry paths
					k = 0
				}
				e.Disk.Fault = func(op string, nth, idx int) simdisk.FaultMode {
					if op != kind {
						return simdisk.NoFault
					}
					n++
					if n == k+1 {
						return simdisk.FailBefore
					}
					return simdisk.NoFault
				}
				e.Emit(core.Event{"ev": "Note", "what": "fault-armed", "kind": kind, "k": k})
				e.Flush()
				e.Disk.Fault = nil
			}
			e.Flush()
		case r < 88:
			n := 1 + rng.Intn(6)
			got := consume(e, rng, n, true)
			unread -= got
		case r < 94:
			e.Counters()
		default:
			if rng.Intn(1000) < c.ReopenPct*10 {
				if err := e.Reopen(); err != nil {
					return
				}
			} else {
				e.Counters()
			}
		}
		if c.LagMax > 0 && unread > c.LagMax {
			unread -= consume(e, rng, unread, true)
		}
	}
	// drain everything
	e.Flush()
	for k := 0; k < 1000; k++ {
		if consume(e, rng, 50, true) == 0 {
			break
		}
	}
	e.Counters()
	e.Reopen()
	e.Counters()
	consume(e, rng, 10, false)
	e.Close()
	return
}

func queueHistories(r *core.Run, cfgs []QCfg) []*core.Trace {
	traces := make([]*core.Trace, len(cfgs))
	var wg sync.WaitGroup
	sem := make(chan struct{}, 12)
	for i, c := range cfgs {
		wg.Add(1)
		sem <- struct{}{}
		go func(i int, c QCfg) {
			defer wg.Done()
			defer func() { <-sem }()
			done := make(chan struct{})
			var tr *core.Trace
			c.Tick = new(int64)
			var env *qenv.Env
			c.EnvOut = &env
			go func() {
				defer close(done)
				tr, _ = RunQueueHistory(c)
			}()
			switch core.WatchRun(c.Tick, done, 90*time.Second, 30*time.Minute) {
			case "":
				traces[i] = tr
			case "hang": // no operation returned for 90 s: keep what was recorded up to there
				var evs []core.Event
				if env != nil {
					evs = env.Events()
				}
				traces[i] = &core.Trace{Name: c.Name, Meta: c.String(), Events: append(evs, core.Event{"ev": "Hang", "cfg": c.String()})}
			default:
				r.Break("history %s did not finish within the budget (it kept making progress)", c.Name)
				traces[i] = &core.Trace{Name: c.Name, Meta: c.String()}
			}
		}(i, c)
	}
	wg.Wait()
	for _, t := range traces {
		r.AddDistinct(fmt.Sprint(t.Meta))
		r.AddEvals(int64(len(t.Events)))
	}
	return traces
}

// judgePQ validates queue traces with PQTrace.tla and reports the deviations
// of the running check's property (plus the ones in mine).
func judgePQ(r *core.Run, traces []*core.Trace, mine ...string) {
	const shards = 8
	var wg sync.WaitGroup
	var mu sync.Mutex
	var all []core.Reject
	for s := 0; s < shards; s++ {
		var part []*core.Trace
		for i := s; i < len(traces); i += shards {
			if traces[i] != nil {
				part = append(part, traces[i])
			}
		}
		if len(part) == 0 {
			continue
		}
		wg.Add(1)
		go func(part []*core.Trace) {
			defer wg.Done()
			rej := r.Judge(core.JudgeOpts{Module: "PQTrace", Config: "PQTrace.cfg", Timeout: 30 * time.Minute, HeapMB: 3000, Batch: 40000, MaxRej: 50}, part)
			mu.Lock()
			all = append(all, rej...)
			mu.Unlock()
		}(part)
	}
	wg.Wait()
	ReportPQ(r, all, mine)
}

// ReportPQ reports deviations / rejected traces of queue runs.
func ReportPQ(r *core.Run, rejects []core.Reject, mineList []string) {
	mine := map[string]bool{r.Prop: true}
	for _, p := range mineList {
		mine[p] = true
	}
	others := map[string]int{}
	for _, d := range r.TakeDevs() {
		name := d.Kind[len("dev:"):]
		if !mine[d.Prop] {
			others[d.Prop+":"+name]++
			continue
		}
		path := r.SaveReplay(safeName(d.Trace.Name)+".ndjson", d.Trace.Serialize())
		r.Violate(core.Violation{Signature: fmt.Sprintf("pq:%s:%s", name, lastEvName(d)), What: d.Describe() + fmt.Sprintf(" [%v]", d.Trace.Meta), Replay: path})
	}
	if len(others) > 0 {
		r.SetExtra("deviations_recorded_for_other_properties", others)
	}
	for _, rj := range rejects {
		ev := lastEvName(rj)
		path := r.SaveReplay(safeName(rj.Trace.Name)+".ndjson", rj.Trace.Serialize())
		what := rj.Describe() + fmt.Sprintf(" [%v]", rj.Trace.Meta)
		if ev == "Panic" || ev == "Hang" {
			r.Violate(core.Violation{Signature: "pq:rejected:" + ev, What: what, Replay: path})
		} else {
			r.Break("queue trace could not be followed by PQTrace.tla: %s (replay %s)", what, path)
		}
	}
}

// explorePQ runs the exhaustive PQ.tla configuration of the tier in the background.
func explorePQ(r *core.Run) func() {
	cfg := "MC_PQ_q.cfg"
	if r.Thorough() {
		cfg = "MC_PQ_t.cfg"
	}
	var wg sync.WaitGroup
	wg.Add(1)
	go func() {
		defer wg.Done()
		r.Explore(core.TLCOpts{Module: "MC_PQ", Config: cfg, Timeout: 40 * time.Minute, HeapMB: 12000, Workers: 8, Coverage: r.Thorough()})
	}()
	return wg.Wait
}

func pqCfgs(r *core.Run, name string, n int, f func(i int, c *QCfg)) []QCfg {
	var out []QCfg
	for i := 0; i < n; i++ {
		c := QCfg{Name: fmt.Sprintf("%s-%d", name, i), Seed: r.Seed*7919 + int64(i)*104729 + 3,
			PageSize: 1024, MaxPages: 0, WriteBuffer: 0, Steps: 150, ReopenPct: 3, Chunked: i%2 == 1, BigPct: 15, LagMax: 40}
		if i%5 == 2 {
			c.PageSize = 4096
		}
		if i%3 == 1 {
			c.WriteBuffer = 16 * 1024
		}
		if i%4 == 3 {
			// the file fills up: operations fail and are retried after ACKs
			c.MaxPages, c.LagMax, c.BigPct, c.FillUp = 64+uint64(i%3)*16, 0, 55, true
		}
		if c.Chunked {
			c.MidReopen = 10
		}
		if f != nil {
			f(i, &c)
		}
		out = append(out, c)
	}
	return out
}

// CheckC05: queue FIFO, exactly once, byte-identical.
func CheckC05(r *core.Run) {
	defer explorePQ(r)()
	r.Rule = "random producer/consumer histories over event-size classes around page and header boundaries (1 byte .. 5 pages), Write chunkings with flushes inside events, partial reads and skips, page sizes 1024/4096, write buffers 0/16KiB, reopen; every RNext size, every byte returned by RRead (content identifies the event id) and the read cursor are judged by PQTrace.tla (Fifo, ReadBytes, EventSize, WriteAccepted); distinct = configurations/seeds"
	cfgs := pqCfgs(r, "c05", r.Pick(32, 200), func(i int, c *QCfg) { c.Steps = r.Pick(150, 400) })
	if os.Getenv("VERIF_ONLY") == "pqreplay" { // (development aid: the replay part alone)
		cfgs = nil
	}
	traces := queueHistories(r, cfgs)
	// every behaviour of PQ.tla within small bounds (real layout constants) on the real queue
	if r.Thorough() {
		traces = append(traces, replayPQ(r, "PQReplay_t.cfg", 10)...)
		traces = append(traces, replayPQSim(r, "PQReplay_sim.cfg", 300, 70, 10)...)
	} else {
		traces = append(traces, replayPQ(r, "PQReplay_q.cfg", 4)...)
		traces = append(traces, replayPQSim(r, "PQReplay_sim.cfg", 12, 60, 5)...)
	}
	pqSample(r, traces)
	{
		for _, t := range traces {
			if t != nil && len(t.Events) > 300 {
				runSelfTest(r, "PQTrace", "PQTrace.cfg", t, pqMutants())
				break
			}
		}
	}
	judgePQ(r, traces)
}

// CheckC17: counters and callbacks.
func CheckC17(r *core.Run) {
	defer explorePQ(r)()
	r.Rule = "random producer/consumer/reopen histories; Pending, Active, Reader.Available and the Flushed/ACKed callback totals are judged by PQTrace.tla (PendingActive, Available, FlushedCallback, ACKedCallback) at every point they are observed; distinct = configurations/seeds"
	cfgs := pqCfgs(r, "c17", r.Pick(32, 200), func(i int, c *QCfg) {
		c.Steps = r.Pick(150, 400)
		c.ReopenPct = 6
		if i%2 == 0 {
			c.MaxPages, c.LagMax, c.BigPct, c.FillUp = 64+uint64(i%3)*16, 0, 55, true
		}
	})
	traces := queueHistories(r, cfgs)
	// Pending / Active after every flush, ACK and restart of the behaviours of PQ.tla (small bounds;
	// every third path in the quick tier - C05 replays all of them)
	pqReplayStride = r.Pick(3, 1)
	traces = append(traces, replayPQ(r, "PQReplay_q.cfg", 4)...)
	pqSample(r, traces)
	judgePQ(r, traces)
}

func pqSample(r *core.Run, traces []*core.Trace) {
	for _, t := range traces {
		if t != nil && len(t.Events) > 30 {
			r.AddSample(map[string]interface{}{"cfg": t.Meta, "events": t.Events[10:26]})
			return
		}
	}
}

// RunTinyFillDrain: the smallest possible file (16 pages of 4 KiB), a write buffer of one page and
// events of a few hundred bytes. Every cycle fills until the writer reports an error, drains and
// ACKs everything; the queue is empty then and the few buffered events have to be accepted by a
// later Flush (else StuckAfterDrain). Sizes vary with the variant so that flushes fail at different
// stages (before / after the data pages of the flush were allocated).
func RunTinyFillDrain(c QCfg, variant, cycles int) *core.Trace {
	e := qenv.New(c.Name, txfile.Options{PageSize: 4096, MaxSize: 16 * 4096}, c.WriteBuffer)
	e.Tick = c.Tick
	if c.EnvOut != nil {
		*c.EnvOut = e
	}
	tr := &core.Trace{Name: c.Name, Meta: fmt.Sprintf("%s tiny file 16x4096 wbuf=%d variant=%d cycles=%d", c.Name, c.WriteBuffer, variant, cycles)}
	defer func() {
		if p := recover(); p != nil {
			e.Emit(core.Event{"ev": "Panic", "msg": fmt.Sprint(p), "stack": core.ShortStack()})
		}
		tr.Events = e.Events()
	}()
	if err := e.Open(true); err != nil {
		return tr
	}
	rng := rand.New(rand.NewSource(c.Seed))
	id := 0
	drain := func() {
		for round := 0; round < 400; round++ {
			if consume(e, rng, 1+rng.Intn(12), false) == 0 {
				break
			}
		}
		if p, err := e.Q.Pending(); err == nil && p > 0 {
			e.ACK(p)
		}
	}
	for cy := 0; cy < cycles; cy++ {
		var ferr error
		for k := 0; k < 4000 && ferr == nil; k++ {
			// (a few hundred bytes per event: with a write buffer of at most one page never more
			// than about two pages are buffered when the file runs full)
			size := 300 + 37*(id%9) + 7*(variant%6)
			if ferr = e.Write(size); ferr != nil {
				break
			}
			id++
			ferr = e.Next()
		}
		e.Counters()
		drain()
		e.Counters()
		if err := e.Flush(); err != nil && qenv.IsFull(err) {
			if p, perr := e.Q.Pending(); perr == nil && p == 0 {
				e.Emit(core.Event{"ev": "StuckAfterDrain", "msg": err.Error()})
			}
		}
		drain()
	}
	e.Counters()
	e.Close()
	return tr
}

// RunFillDrain runs fill-to-error / drain cycles on a small bounded file.
func RunFillDrain(c QCfg, cycles int) (tr *core.Trace, env *qenv.Env) {
	rng := rand.New(rand.NewSource(c.Seed))
	e := qenv.New(c.Name, txfile.Options{PageSize: c.PageSize, MaxSize: c.MaxPages * uint64(c.PageSize)}, c.WriteBuffer)
	e.Tick = c.Tick
	if c.EnvOut != nil {
		*c.EnvOut = e
	}
	tr = &core.Trace{Name: c.Name, Meta: c.String() + fmt.Sprintf(" cycles=%d", cycles)}
	env = e
	defer func() {
		if p := recover(); p != nil {
			e.Emit(core.Event{"ev": "Panic", "msg": fmt.Sprint(p), "stack": core.ShortStack()})
		}
		tr.Events = e.Events()
	}()
	if err := e.Open(true); err != nil {
		return
	}
	for cy := 0; cy < cycles; cy++ {
		// fill until an operation reports that the file is full
		full := false
		for k := 0; k < 4000 && !full; k++ {
			if err := produce(e, rng, c); err != nil {
				full = true
			}
			if rng.Intn(5) == 0 {
				if err := e.Flush(); err != nil {
					full = true
				}
			}
		}
		if !full {
			e.Emit(core.Event{"ev": "Note", "what": "file did not fill up"})
		}
		e.Counters()
		// the consumer drains (part of) the queue: reading and ACK must work on the full file
		portion := 1 + rng.Intn(4) // drain 1/portion .. everything
		for round := 0; round < 2000; round++ {
			got := consume(e, rng, 1+rng.Intn(12), true)
			e.Counters()
			if got == 0 {
				break
			}
			if portion > 1 && rng.Intn(portion*6) == 0 {
				break
			}
		}
		// a later call flushes what the producer still holds in its buffer
		e.Flush()
		e.Counters()
		if rng.Intn(7) == 0 {
			if err := e.Reopen(); err != nil {
				return
			}
			e.Counters()
		}
	}
	e.Flush()
	for k := 0; k < 3000; k++ {
		if consume(e, rng, 50, true) == 0 {
			break
		}
	}
	e.Counters()
	e.Close()
	return
}

// CheckC12: the queue reclaims space, reports full without loss, can always be drained.
func CheckC12(r *core.Run) {
	defer explorePQ(r)()
	r.Rule = "fill-to-error / drain cycles on small bounded files (64..256 pages, page sizes 1024/4096, write buffers 0/16KiB, event-size mixes incl. multi-page events); PQTrace.tla judges: errors only when the file is full and without loss (the buffered events are delivered in order after space was freed), reading and ACK succeed on the full file, and after every ACK the pages held (queue header inuse, FileStats.DataAllocated) and the file extent stay within SpaceBound (span of the un-ACKed events plus the most recent ACKed event plus a constant); distinct = configurations/seeds"
	n := r.Pick(20, 120)
	var traces []*core.Trace
	var mu sync.Mutex
	var wg sync.WaitGroup
	sem := make(chan struct{}, 12)
	maxes := []uint64{64, 96, 128, 256, 70}
	for i := 0; i < n; i++ {
		c := QCfg{Name: fmt.Sprintf("c12-%d", i), Seed: r.Seed*7919 + int64(i)*104729 + 5, PageSize: 1024,
			MaxPages: maxes[i%len(maxes)], Chunked: i%2 == 0, BigPct: []int{10, 40, 70}[i%3]}
		if i%4 == 2 {
			c.PageSize, c.MaxPages = 4096, 64
		}
		if i%5 == 3 {
			// the smallest file there is (64 KiB): a flush can fail after its data pages were
			// allocated, when the commit finds no room for its own mapping / list pages
			c.PageSize, c.MaxPages, c.BigPct = 4096, 16, 0
			c.WriteBuffer = []uint{0, 4096}[(i/5)%2]
		}
		if i%3 == 1 {
			c.WriteBuffer = 16 * 1024
		}
		wg.Add(1)
		sem <- struct{}{}
		go func(c QCfg) {
			defer wg.Done()
			defer func() { <-sem }()
			done := make(chan struct{})
			var tr, got *core.Trace
			c.Tick = new(int64)
			var env *qenv.Env
			c.EnvOut = &env
			go func() {
				defer close(done)
				got, _ = RunFillDrain(c, r.Pick(6, 20))
			}()
			switch core.WatchRun(c.Tick, done, 90*time.Second, 30*time.Minute) {
			case "":
				tr = got
			case "hang": // no operation returned for 90 s: keep what was recorded up to there
				var evs []core.Event
				if env != nil {
					evs = env.Events()
				}
				tr = &core.Trace{Name: c.Name, Meta: c.String(), Events: append(evs, core.Event{"ev": "Hang", "cfg": c.String()})}
			default:
				r.Break("fill/drain run %s did not finish within the budget (it kept making progress)", c.Name)
				tr = &core.Trace{Name: c.Name, Meta: c.String()}
			}
			mu.Lock()
			traces = append(traces, tr)
			mu.Unlock()
		}(c)
	}
	wg.Wait()
	for v := 0; v < r.Pick(6, 24); v++ {
		c := QCfg{Name: fmt.Sprintf("c12-tiny-%d", v), Seed: r.Seed*31 + int64(v), PageSize: 4096, MaxPages: 16, WriteBuffer: []uint{4096, 2048, 4096, 1024}[v%4]}
		traces = append(traces, RunTinyFillDrain(c, v, 8))
	}
	for _, t := range traces {
		r.AddDistinct(fmt.Sprint(t.Meta))
		r.AddEvals(int64(len(t.Events)))
	}
	// the pages the queue holds after every flush, ACK and restart of every behaviour of PQ.tla
	// (small bounds, unbounded file): the real inuse counter must equal the specification's
	// (every third path in the quick tier - C05 replays all of them)
	pqReplayStride = r.Pick(3, 1)
	traces = append(traces, replayPQ(r, "PQReplay_q.cfg", 4)...)
	pqSample(r, traces)
	judgePQ(r, traces, "C05", "C06")
}
