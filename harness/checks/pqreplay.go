package checks

import (
	"fmt"
	"strconv"
	"strings"
	"sync"
	"time"

	txfile "github.com/elastic/go-txfile"

	"verif/core"
	"verif/qenv"
)

// Replay of the behaviours of PQ.tla on the real queue (specification -> code).
// PQReplay.tla is PQ.tla with the real layout constants; TLC prints the path of
// queue calls leading to every transition together with its predictions: id and
// size of every delivered event, pending events and pages held after every
// flush / ACK / restart.  Each maximal path is executed on a fresh queue
// (unbounded file, write buffer large enough to hold the events of a path) and
// every prediction is compared with the real result (Reader.Next, the bytes
// read, Queue.Pending, the inuse counter of the queue's root page).

type pqMismatch struct{ kind, what string }

// pqReplayStride: replay every n-th maximal path only (set by the checks that share the replay)
var pqReplayStride = 1

func replayPQPath(name, path string) (*core.Trace, *pqMismatch) {
	steps := strings.Split(strings.TrimSuffix(path, ","), ",")
	e := qenv.New(name, txfile.Options{PageSize: 1024}, 64*1024)
	tr := &core.Trace{Name: name, Meta: path}
	var mm *pqMismatch
	fail := func(i int, kind, format string, a ...interface{}) {
		if mm == nil {
			mm = &pqMismatch{kind, fmt.Sprintf("step %d (%s): ", i, steps[i]) + fmt.Sprintf(format, a...)}
		}
	}
	func() {
		defer func() {
			if p := recover(); p != nil {
				e.Emit(core.Event{"ev": "Panic", "msg": fmt.Sprint(p), "stack": core.ShortStack()})
				fail(0, "Panic", "%v", p)
			}
			tr.Events = e.Events()
		}()
		if err := e.Open(true); err != nil {
			fail(0, "CallFailed", "open: %v", err)
			return
		}
		space := func(i int, arg string) {
			f := strings.Split(arg, ":")
			wantPending, _ := strconv.Atoi(f[0])
			wantHeld, _ := strconv.Atoi(f[1])
			if p, err := e.Q.Pending(); err != nil || p != wantPending {
				fail(i, "Pending", "Queue.Pending = %d (%v), specification: %d", p, err, wantPending)
			}
			if a, err := e.Q.Active(); err != nil || int(a) != wantPending {
				fail(i, "Active", "Queue.Active = %d (%v), specification: %d", a, err, wantPending)
			}
			if n, ok := e.Inuse(); !ok || int(n) != wantHeld {
				fail(i, "PagesHeld", "the queue's root page counts %d pages in use (ok=%v), specification: %d", n, ok, wantHeld)
			}
		}
		inRead := false
		for i, s := range steps {
			if mm != nil {
				break
			}
			arg := ""
			if k := strings.IndexByte(s, ':'); k >= 0 {
				s, arg = s[:k], s[k+1:]
			}
			switch {
			case s[0] == 'A':
				n, _ := strconv.Atoi(s[1:])
				if err := e.Write(n); err != nil {
					fail(i, "CallFailed", "Write(%d): %v", n, err)
				}
				if err := e.Next(); err != nil {
					fail(i, "CallFailed", "Next: %v", err)
				}
			case s == "F":
				if err := e.Flush(); err != nil {
					fail(i, "CallFailed", "Flush: %v", err)
				}
				space(i, arg)
			case s == "RB":
				if err := e.RBegin(); err != nil {
					fail(i, "CallFailed", "Reader.Begin: %v", err)
				}
				inRead = true
			case s == "RD":
				e.RDone()
				inRead = false
			case s == "RE":
				if n, err := e.RNext(); err != nil || n != 0 {
					fail(i, "Delivery", "Reader.Next at the end of the snapshot = %d (%v), specification: 0", n, err)
				}
			case strings.HasPrefix(s, "RN"):
				id, _ := strconv.Atoi(s[2:])
				size, _ := strconv.Atoi(arg)
				n, err := e.RNext()
				if err != nil || n != size {
					fail(i, "Delivery", "Reader.Next = %d (%v), specification: event %d of %d bytes", n, err, id, size)
					break
				}
				got, err := e.RRead(size)
				cid, ok := e.LastRead()
				if err != nil || got != size || !ok || cid != id%256 {
					fail(i, "Delivery", "read %d bytes (%v), content ok=%v of event %d, specification: all %d bytes of event %d", got, err, ok, cid, size, id)
				}
			case s[0] == 'K':
				n, _ := strconv.Atoi(s[1:])
				if err := e.ACK(n); err != nil {
					fail(i, "CallFailed", "ACK(%d): %v", n, err)
				}
				space(i, arg)
			case s == "X":
				if err := e.Abandon(); err != nil {
					fail(i, "CallFailed", "reopen after the process died: %v", err)
					break
				}
				space(i, arg)
			default:
				panic("unknown step " + s)
			}
		}
		if inRead { // (Close waits for read transactions)
			e.RDone()
		}
		e.Close()
	}()
	return tr, mm
}

// replayPQ generates and replays; every judgeEvery-th execution is returned for PQTrace.
func replayPQ(r *core.Run, cfg string, judgeEvery int) []*core.Trace {
	return replayPQOpts(r, core.TLCOpts{Module: "PQReplay", Config: cfg, Workers: 4, Timeout: 30 * time.Minute, HeapMB: 8192}, judgeEvery)
}

// replayPQSim replays random walks of PQReplay.tla (tlc -simulate) with more events and sizes.
func replayPQSim(r *core.Run, cfg string, num, depth, judgeEvery int) []*core.Trace {
	return replayPQOpts(r, core.TLCOpts{Module: "PQReplay", Config: cfg, Workers: 1, Timeout: 30 * time.Minute, HeapMB: 4096,
		Simulate: fmt.Sprintf("num=%d", num), Depth: depth, Seed: r.Seed + 13}, judgeEvery)
}

func replayPQOpts(r *core.Run, o core.TLCOpts, judgeEvery int) []*core.Trace {
	cfg := o.Config
	gen, err := core.RunTLC(r.Scratch, o)
	simOK := o.Simulate != "" && gen != nil && strings.Contains(gen.Output, "traces generated") && !strings.Contains(gen.Output, "Error:")
	if err != nil || !(gen.OK || simOK) {
		r.Break("PQReplay generator failed: %v %s", err, tail(gen))
		return nil
	}
	var paths []string
	for _, p := range gen.Prints {
		if strings.HasPrefix(p, "@P ") {
			paths = append(paths, strings.TrimPrefix(p, "@P "))
		}
	}
	gen.Cleanup()
	max := maximalPaths(paths)
	if pqReplayStride > 1 { // C12 / C17 replay a sample, C05 all of them
		var sel []string
		for i, p := range max {
			if i%pqReplayStride == 0 {
				sel = append(sel, p)
			}
		}
		max = sel
	}
	r.SetExtra("pqreplay_"+cfg, map[string]interface{}{"graph_states": gen.Distinct, "transitions": len(paths), "maximal_paths_replayed": len(max), "judged_by_PQTrace_every": judgeEvery})
	if len(max) > 0 {
		r.AddSample(map[string]interface{}{"replayed_pq_path": max[len(max)/2]})
	}
	traces := make([]*core.Trace, len(max))
	mms := make([]*pqMismatch, len(max))
	var wg sync.WaitGroup
	sem := make(chan struct{}, 12)
	for i, p := range max {
		wg.Add(1)
		sem <- struct{}{}
		go func(i int, p string) {
			defer wg.Done()
			defer func() { <-sem }()
			traces[i], mms[i] = replayPQPath(fmt.Sprintf("pqreplay-%s-%d", strings.TrimSuffix(strings.TrimPrefix(cfg, "PQReplay_"), ".cfg"), i), p)
		}(i, p)
	}
	wg.Wait()
	reported := map[string]int{}
	var out []*core.Trace
	for i, m := range mms {
		r.AddDistinct("pqreplay:" + max[i])
		r.AddEvals(int64(len(traces[i].Events)))
		if i%judgeEvery == 0 || m != nil {
			out = append(out, traces[i])
		}
		if m == nil {
			continue
		}
		sig := "pqreplay:" + m.kind
		if reported[sig] >= 3 {
			continue
		}
		reported[sig]++
		path := r.SaveReplay(traces[i].Name+".ndjson", traces[i].Serialize())
		r.Violate(core.Violation{Signature: sig, What: fmt.Sprintf("behaviour of PQ.tla %q: %s", max[i], m.what), Replay: path})
	}
	return out
}
