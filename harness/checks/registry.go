// Package checks holds one check per property.
package checks

import (
	"fmt"
	"os"

	"verif/core"
)

// Registry maps property ids to checks.
var Registry = map[string]func(*core.Run){
	"C09": CheckC09,
}

// Replay prints a stored replay artefact (the trace that was rejected) so that
// it can be inspected or re-judged.
func Replay(prop, path string) int {
	b, err := os.ReadFile(path)
	if err != nil {
		fmt.Fprintln(os.Stderr, err)
		return 2
	}
	os.Stdout.Write(b)
	return 0
}
