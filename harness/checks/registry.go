// Package checks holds one check per property.
package checks

import (
	"bytes"
	"encoding/json"
	"fmt"
	"os"
	"path/filepath"
	"strings"
	"time"

	"verif/core"
)

// Registry maps property ids to checks.
var Registry = map[string]func(*core.Run){
	"C01": CheckC01,
	"C02": CheckC02,
	"C03": CheckC03,
	"C04": CheckC04,
	"C05": CheckC05,
	"C06": CheckC06,
	"C07": CheckC07,
	"C08": CheckC08,
	"C10": CheckC10,
	"C11": CheckC11,
	"C12": CheckC12,
	"C13": CheckC13,
	"C14": CheckC14,
	"C15": CheckC15,
	"C16": CheckC16,
	"C17": CheckC17,
	"C18": CheckC18,
	"C09": CheckC09,
}

// Replay prints a stored replay artefact (the trace that was rejected) so that
// it can be inspected or re-judged.
func Replay(prop, path string) int {
	b, err := os.ReadFile(path)
	if err != nil {
		fmt.Fprintln(os.Stderr, err)
		return 2
	}
	// the artefact is a recorded execution of the real code: judge it again with the trace
	// specification it belongs to and print what the specification objects to
	var evs []core.Event
	dec := json.NewDecoder(bytes.NewReader(b))
	dec.UseNumber()
	for {
		var e core.Event
		if err := dec.Decode(&e); err != nil {
			break
		}
		evs = append(evs, e)
	}
	name, meta := filepath.Base(path), interface{}(path)
	if len(evs) > 0 && evs[0]["ev"] == "Reset" {
		if n, ok := evs[0]["name"].(string); ok {
			name = n
		}
		meta = evs[0]["meta"]
		evs = evs[1:]
	}
	module, cfg := "TxTrace", "TxTrace.cfg"
	has := func(field string) bool {
		for _, e := range evs {
			if _, ok := e[field]; ok {
				return true
			}
		}
		return false
	}
	evIs := func(names ...string) bool {
		for _, e := range evs {
			for _, n := range names {
				if e["ev"] == n {
					return true
				}
			}
		}
		return false
	}
	switch {
	case strings.HasSuffix(name, "-writer") || evIs("Sched", "Written"):
		module, cfg = "WriterTrace", "WriterTrace.cfg"
	case evIs("QOpen", "RNext", "QSwitched"):
		module, cfg = "PQTrace", "PQTrace.cfg"
	case evIs("Path"):
		module, cfg = "PathLockTrace", "PathLockTrace.cfg"
	case evIs("Open") && has("s0"):
		module, cfg = "HeaderTrace", "HeaderTrace.cfg"
	case evIs("Call"):
		module, cfg = "ApiTrace", "ApiTrace_tx.cfg"
		for _, e := range evs {
			if m, _ := e["m"].(string); strings.HasPrefix(m, "Q") || strings.HasPrefix(m, "R") && m != "Rollback" && m != "RootPage" || strings.HasPrefix(m, "Ack") {
				cfg = "ApiTrace_q.cfg"
			}
		}
	case evIs("RCall", "WCall", "RAcq", "WAcq", "CCall"):
		module, cfg = "LockTrace", "LockTrace.cfg"
	}
	r, err := core.NewRun(prop, "replay", 1)
	if err != nil {
		fmt.Fprintln(os.Stderr, err)
		return 2
	}
	defer os.RemoveAll(r.Scratch)
	tr := &core.Trace{Name: name, Meta: meta, Events: evs}
	rej := r.Judge(core.JudgeOpts{Module: module, Config: cfg, Timeout: 20 * time.Minute, HeapMB: 4096, MaxRej: 20}, []*core.Trace{tr})
	devs := r.TakeDevs()
	fmt.Printf("trace %s: %d events, judged by %s\n", name, len(evs), module)
	for _, d := range devs {
		fmt.Printf("  deviation %s of %s at event #%d: %s\n", strings.TrimPrefix(d.Kind, "dev:"), d.Prop, d.EventIdx, d.Describe())
	}
	for _, rj := range rej {
		fmt.Printf("  %s\n", rj.Describe())
	}
	if len(devs)+len(rej) > 0 {
		fmt.Printf("VIOLATION property=%s replay=%s\n", prop, path)
		return 1
	}
	fmt.Println("the specification accepts this execution")
	return 0
}

// RaceDrivers are run by the race-detector build of the harness (txv <prop> race).
var RaceDrivers = map[string]func(){
	"C02": raceC02,
	"C13": raceC13,
}
