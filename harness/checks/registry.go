// Package checks holds one check per property.
package checks

import (
	"fmt"
	"os"

	"verif/core"
)

// Registry maps property ids to checks.
var Registry = map[string]func(*core.Run){
	"C01": CheckC01,
	"C02": CheckC02,
	"C03": CheckC03,
	"C04": CheckC04,
	"C05": CheckC05,
	"C06": CheckC06,
	"C07": CheckC07,
	"C08": CheckC08,
	"C10": CheckC10,
	"C11": CheckC11,
	"C12": CheckC12,
	"C13": CheckC13,
	"C14": CheckC14,
	"C15": CheckC15,
	"C16": CheckC16,
	"C17": CheckC17,
	"C18": CheckC18,
	"C09": CheckC09,
}

// Replay prints a stored replay artefact (the trace that was rejected) so that
// it can be inspected or re-judged.
func Replay(prop, path string) int {
	b, err := os.ReadFile(path)
	if err != nil {
		fmt.Fprintln(os.Stderr, err)
		return 2
	}
	os.Stdout.Write(b)
	return 0
}

// RaceDrivers are run by the race-detector build of the harness (txv <prop> race).
var RaceDrivers = map[string]func(){
	"C02": raceC02,
	"C13": raceC13,
}
