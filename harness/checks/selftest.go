package checks

import (
	"encoding/json"
	"fmt"
	"time"

	"verif/core"
)

// Binding self-tests (thorough tier): a recorded good trace is altered in one
// field (or loses one event) and the trace specification has to notice - this
// shows that the specification constrains more than the length of a trace.
// A mutant that goes unnoticed is a machinery failure (exit 2).

func cloneTrace(t *core.Trace, name string) *core.Trace {
	b, _ := json.Marshal(t.Events)
	var evs []core.Event
	dec := json.NewDecoder(bytesReader(b))
	dec.UseNumber()
	dec.Decode(&evs)
	return &core.Trace{Name: name, Meta: "self-test mutant of " + t.Name, Events: evs}
}

type mutant struct {
	name string
	fn   func(evs []core.Event) ([]core.Event, bool)
}

func runSelfTest(r *core.Run, module, cfg string, base *core.Trace, muts []mutant) {
	runSelfTestN(r, module, cfg, []*core.Trace{base}, muts)
}

// runSelfTestN applies every mutation to the first of the base traces that has a place for it.
func runSelfTestN(r *core.Run, module, cfg string, bases []*core.Trace, muts []mutant) {
	tmp, err := core.NewRun(r.Prop, r.Tier, r.Seed)
	if err != nil {
		r.Break("self-test: %v", err)
		return
	}
	var traces []*core.Trace
	var names []string
	for _, m := range muts {
		for i, base := range bases {
			if base == nil || i > 400 {
				continue
			}
			c := cloneTrace(base, "selftest-"+m.name)
			c.Meta = base.Meta
			evs, ok := m.fn(c.Events)
			if !ok {
				continue // this trace has no place for the mutation
			}
			c.Events = evs
			traces = append(traces, c)
			names = append(names, m.name)
			break
		}
	}
	if len(traces) == 0 {
		return
	}
	rej := tmp.Judge(core.JudgeOpts{Module: module, Config: cfg, Timeout: 20 * time.Minute, HeapMB: 3000, MaxRej: 100}, traces)
	noticed := map[string]bool{}
	for _, d := range tmp.TakeDevs() {
		noticed[d.Trace.Name] = true
	}
	for _, rj := range rej {
		noticed[rj.Trace.Name] = true
	}
	okN := 0
	for i, t := range traces {
		if noticed[t.Name] {
			okN++
		} else {
			r.Break("binding self-test: mutant %q of a recorded trace was accepted by %s without any deviation", names[i], module)
		}
	}
	r.SetExtra("binding_selftest_"+module, fmt.Sprintf("%d of %d mutants noticed", okN, len(traces)))
	os_RemoveAll(tmp.Scratch)
}

func firstIdx(evs []core.Event, pred func(core.Event) bool, skip int) int {
	for i, e := range evs {
		if pred(e) {
			if skip == 0 {
				return i
			}
			skip--
		}
	}
	return -1
}

func txMutants() []mutant {
	return []mutant{
		{"readr-version", func(evs []core.Event) ([]core.Event, bool) {
			i := firstIdx(evs, func(e core.Event) bool {
				q, ok := e["q"].([]interface{})
				return e["ev"] == "ReadR" && e["err"] == "" && ok && len(q) == 4 && fmt.Sprint(q[0]) != "0"
			}, 3)
			if i < 0 {
				return nil, false
			}
			q := evs[i]["q"].([]interface{})
			q[0] = json.Number("999999")
			return evs, true
		}},
		{"page-owned-twice", func(evs []core.Event) ([]core.Event, bool) {
			i := firstIdx(evs, func(e core.Event) bool {
				st, ok := e["st"].(map[string]interface{})
				if !ok || e["ev"] != "Commit" {
					return false
				}
				m, _ := st["mfree"].([]interface{})
				return len(m) > 0
			}, 1)
			if i < 0 {
				return nil, false
			}
			st := evs[i]["st"].(map[string]interface{})
			m := st["mfree"].([]interface{})
			d, _ := st["dfree"].([]interface{})
			st["dfree"] = append(d, m[0]) // a meta page also in the data freelist
			return evs, true
		}},
		{"alloc-returns-live-page", func(evs []core.Event) ([]core.Event, bool) {
			i := firstIdx(evs, func(e core.Event) bool {
				ids, ok := e["ids"].([]interface{})
				return e["ev"] == "Alloc" && e["err"] == "" && ok && len(ids) >= 2
			}, 4)
			if i < 0 {
				return nil, false
			}
			ids := evs[i]["ids"].([]interface{})
			ids[1] = ids[0] // the same id twice
			return evs, true
		}},
		{"drop-commit-switched", func(evs []core.Event) ([]core.Event, bool) {
			i := firstIdx(evs, func(e core.Event) bool { return e["ev"] == "CommitSwitched" }, 2)
			if i < 0 {
				return nil, false
			}
			return append(evs[:i:i], evs[i+1:]...), true
		}},
		{"rollback-leaves-trace", func(evs []core.Event) ([]core.Event, bool) {
			i := firstIdx(evs, func(e core.Event) bool { _, ok := e["st"].(map[string]interface{}); return e["ev"] == "Rollback" && ok }, 0)
			if i < 0 {
				return nil, false
			}
			st := evs[i]["st"].(map[string]interface{})
			st["mt"] = json.Number("77")
			return evs, true
		}},
	}
}

func pqMutants() []mutant {
	return []mutant{
		{"rnext-size", func(evs []core.Event) ([]core.Event, bool) {
			i := firstIdx(evs, func(e core.Event) bool { return e["ev"] == "RNext" && fmt.Sprint(e["size"]) != "0" }, 2)
			if i < 0 {
				return nil, false
			}
			evs[i]["size"] = json.Number("123456")
			return evs, true
		}},
		{"drop-flush-switch", func(evs []core.Event) ([]core.Event, bool) {
			i := firstIdx(evs, func(e core.Event) bool { return e["ev"] == "QSwitched" && e["kind"] == "flush" }, 1)
			if i < 0 {
				return nil, false
			}
			return append(evs[:i:i], evs[i+1:]...), true
		}},
		{"pending-off-by-one", func(evs []core.Event) ([]core.Event, bool) {
			i := firstIdx(evs, func(e core.Event) bool { return e["ev"] == "Counters" }, 1)
			if i < 0 {
				return nil, false
			}
			evs[i]["pending"] = json.Number("4242")
			return evs, true
		}},
		{"wrong-event-content", func(evs []core.Event) ([]core.Event, bool) {
			i := firstIdx(evs, func(e core.Event) bool { return e["ev"] == "RRead" && e["ok"] == true && fmt.Sprint(e["got"]) != "0" }, 3)
			if i < 0 {
				return nil, false
			}
			evs[i]["cid"] = json.Number("255")
			evs[i]["ok"] = false
			return evs, true
		}},
	}
}

func setField(name string, pred func(core.Event) bool, skip int, field string, val interface{}) mutant {
	return mutant{name, func(evs []core.Event) ([]core.Event, bool) {
		i := firstIdx(evs, pred, skip)
		if i < 0 {
			return nil, false
		}
		evs[i][field] = val
		return evs, true
	}}
}

func dropEvent(name string, pred func(core.Event) bool, skip int) mutant {
	return mutant{name, func(evs []core.Event) ([]core.Event, bool) {
		i := firstIdx(evs, pred, skip)
		if i < 0 {
			return nil, false
		}
		return append(evs[:i:i], evs[i+1:]...), true
	}}
}

func lockMutants() []mutant {
	return []mutant{
		setField("pending-left-set", func(e core.Event) bool { _, ok := e["pe"]; return ok && e["pe"] == false }, 0, "pe", true),
		dropEvent("writer-without-acquire", func(e core.Event) bool { return e["ev"] == "WAcq" }, 0),
		dropEvent("reader-never-unlocks", func(e core.Event) bool { return e["ev"] == "RUnlock" }, 0),
	}
}

func apiMutants() []mutant {
	return []mutant{
		setField("misuse-accepted", func(e core.Event) bool { return e["ev"] == "Call" && e["res"] == "error" }, 0, "res", "ok"),
		setField("misuse-changed-state", func(e core.Event) bool { return e["ev"] == "Call" && e["res"] == "error" && e["unchanged"] == true }, 0, "unchanged", false),
		setField("misuse-panics", func(e core.Event) bool { return e["ev"] == "Call" && e["res"] == "error" }, 0, "res", "panic"),
		setField("valid-call-fails", func(e core.Event) bool { return e["ev"] == "Call" && e["res"] == "ok" && e["m"] != "Begin" }, 0, "res", "error"),
	}
}

func headerMutants() []mutant {
	return []mutant{
		{"older-header-chosen", func(evs []core.Event) ([]core.Event, bool) {
			i := firstIdx(evs, func(e core.Event) bool {
				return e["ev"] == "Open" && e["res"] == "ok" && e["v0"] == true && e["v1"] == true && e["s0"] != e["s1"]
			}, 0)
			if i < 0 {
				return nil, false
			}
			if evs[i]["got"] == evs[i]["s0"] {
				evs[i]["got"] = evs[i]["s1"]
			} else {
				evs[i]["got"] = evs[i]["s0"]
			}
			return evs, true
		}},
		setField("open-fails-with-one-good-header", func(e core.Event) bool {
			return e["ev"] == "Open" && e["res"] == "ok" && e["v0"] != e["v1"]
		}, 0, "res", "error"),
		setField("open-panics", func(e core.Event) bool { return e["ev"] == "Open" && e["res"] == "ok" }, 2, "res", "panic"),
	}
}

func pathLockMutants() []mutant {
	return []mutant{
		setField("second-opener-gets-in", func(e core.Event) bool { return e["ev"] == "Path" && e["a"] == "Open" && e["res"] == "lockfailed" }, 0, "res", "ok"),
		setField("free-path-refused", func(e core.Event) bool { return e["ev"] == "Path" && e["a"] == "Open" && e["res"] == "ok" }, 0, "res", "lockfailed"),
	}
}

// judgeWriter validates the writer-level traces (hooks of write.go) with WriterTrace.tla and
// reports the deviations of the running check's property (plus the ones in mine).
func judgeWriter(r *core.Run, traces []*core.Trace, mine ...string) {
	var ws []*core.Trace
	n := 0
	for _, t := range traces {
		if t != nil && len(t.Writer) > 0 {
			ws = append(ws, &core.Trace{Name: t.Name + "-writer", Meta: t.Meta, Events: t.Writer})
			n += len(t.Writer)
		}
	}
	if len(ws) == 0 {
		return
	}
	r.SetExtra("writer_traces", map[string]interface{}{"traces": len(ws), "events": n})
	r.AddEvals(int64(n))
	own := map[string]bool{r.Prop: true}
	for _, m := range mine {
		own[m] = true
	}
	runSelfTestN(r, "WriterTrace", "WriterTrace.cfg", ws, writerMutants())
	rej := r.Judge(core.JudgeOpts{Module: "WriterTrace", Config: "WriterTrace.cfg", Timeout: 20 * time.Minute, HeapMB: 3000, Batch: 40000, MaxRej: 50}, ws)
	reported := map[string]int{}
	for _, d := range r.TakeDevs() {
		name := d.Kind[len("dev:"):]
		if !own[d.Prop] {
			continue
		}
		sig := "writer:" + name
		if reported[sig] >= 3 {
			continue
		}
		reported[sig]++
		path := r.SaveReplay(safeName(d.Trace.Name)+".ndjson", d.Trace.Serialize())
		r.Violate(core.Violation{Signature: sig, What: d.Describe() + fmt.Sprintf(" [%v]", d.Trace.Meta), Replay: path})
	}
	for _, rj := range rej {
		r.Break("writer trace could not be followed: %s", rj.Describe())
	}
}

func writerMutants() []mutant {
	isW := func(e core.Event) bool { return e["ev"] == "Written" && e["err"] == false }
	return []mutant{
		{"writes-to-one-page-swapped", func(evs []core.Event) ([]core.Event, bool) {
			// two Written events of the same page: swap them
			for i, a := range evs {
				if !isW(a) {
					continue
				}
				for j := i + 1; j < len(evs) && j < i+40; j++ {
					if evs[j]["ev"] == "Synced" || evs[j]["ev"] == "Reset" {
						break
					}
					if isW(evs[j]) && fmt.Sprint(evs[j]["pg"]) == fmt.Sprint(a["pg"]) && fmt.Sprint(evs[j]["h"]) != fmt.Sprint(a["h"]) {
						evs[i], evs[j] = evs[j], evs[i]
						return evs, true
					}
				}
			}
			return nil, false
		}},
		{"sync-before-its-writes", func(evs []core.Event) ([]core.Event, bool) {
			// move a Synced event in front of the Written event preceding it
			for i := 1; i < len(evs); i++ {
				if evs[i]["ev"] == "Synced" && isW(evs[i-1]) {
					evs[i], evs[i-1] = evs[i-1], evs[i]
					return evs, true
				}
			}
			return nil, false
		}},
		setField("unexplained-write-error", func(e core.Event) bool { return isW(e) && e["inj"] == false }, 3, "err", true),
		setField("unexplained-sync-error", func(e core.Event) bool { return e["ev"] == "Synced" && e["err"] == false && e["inj"] == false }, 1, "err", true),
	}
}
