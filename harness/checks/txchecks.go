package checks

import (
	"fmt"
	"os"
	"sync"
	"time"

	"verif/core"
)

// histories runs the given configurations in parallel and returns the traces.
func histories(r *core.Run, cfgs []HistCfg) []*core.Trace {
	traces := make([]*core.Trace, len(cfgs))
	var wg sync.WaitGroup
	sem := make(chan struct{}, 12)
	for i, c := range cfgs {
		wg.Add(1)
		sem <- struct{}{}
		go func(i int, c HistCfg) {
			defer wg.Done()
			defer func() { <-sem }()
			done := make(chan struct{})
			var tr *core.Trace
			c.Tick = new(int64)
			go func() {
				defer close(done)
				tr, _ = RunHistory(c)
			}()
			switch core.WatchRun(c.Tick, done, 90*time.Second, 30*time.Minute) {
			case "":
				traces[i] = tr
			case "hang": // no operation returned for 90 s
				traces[i] = &core.Trace{Name: c.Name, Meta: c.String(), Events: []core.Event{{"ev": "Hang", "cfg": c.String()}}}
			default:
				r.Break("history %s did not finish within the budget (it kept making progress)", c.Name)
			}
		}(i, c)
	}
	wg.Wait()
	for _, t := range traces {
		if t != nil {
			r.AddDistinct(fmt.Sprint(t.Meta))
			r.AddEvals(int64(len(t.Events)))
		}
	}
	return traces
}

// judgeTx validates traces against TxTrace.tla (all properties are evaluated and recorded as
// deviations; the running check reports the ones that belong to it).
func judgeTx(r *core.Run, traces []*core.Trace, o reportOpts) {
	var clean []*core.Trace
	for _, t := range traces {
		if t != nil {
			clean = append(clean, t)
		}
	}
	traces = clean
	// split into several TLC runs that execute in parallel
	const shards = 8
	var wg sync.WaitGroup
	var mu sync.Mutex
	var all []core.Reject
	for s := 0; s < shards; s++ {
		var part []*core.Trace
		for i := s; i < len(traces); i += shards {
			part = append(part, traces[i])
		}
		if len(part) == 0 {
			continue
		}
		wg.Add(1)
		go func(part []*core.Trace) {
			defer wg.Done()
			rej := r.Judge(core.JudgeOpts{Module: "TxTrace", Config: "TxTrace.cfg", Timeout: 30 * time.Minute, HeapMB: 3000, Batch: 25000, MaxRej: 50}, part)
			mu.Lock()
			all = append(all, rej...)
			mu.Unlock()
		}(part)
	}
	wg.Wait()
	Report(r, all, o)
}

// exploreTx runs the exhaustive TxFile.tla configurations of the tier in the background and
// returns the function that waits for them. quick: 6 page ids, 2 transactions x 3 operations,
// 1 reader; thorough: 7-8 page ids, 3 x 3, pre-sized meta area, WAL limits 1/2/3, a file
// that fills up, plus the enumerative cross-check of CrashSafe.
func exploreTx(r *core.Run) func() {
	cfgs := []string{"MC_TxFile_s.cfg"}
	if r.Thorough() {
		cfgs = []string{"MC_TxFile_q.cfg", "MC_TxFile_meta.cfg", "MC_TxFile_full.cfg", "MC_TxFile_ovf.cfg", "MC_TxFile_agree.cfg"}
	}
	var wg sync.WaitGroup
	wg.Add(1)
	go func() {
		defer wg.Done()
		for _, c := range cfgs {
			r.Explore(core.TLCOpts{Module: "MC_TxFile", Config: c, Timeout: 40 * time.Minute, HeapMB: 12000, Workers: 8, Coverage: r.Thorough() && c == "MC_TxFile_full.cfg"})
		}
	}()
	return wg.Wait
}

// exploreWriter runs the exhaustive configurations of Writer.tla (the background writer).
func exploreWriter(r *core.Run) func() {
	cfg := "MC_Writer_q.cfg"
	if r.Thorough() {
		cfg = "MC_Writer.cfg"
	}
	var wg sync.WaitGroup
	wg.Add(1)
	go func() {
		defer wg.Done()
		r.Explore(core.TLCOpts{Module: "Writer", Config: cfg, Timeout: 60 * time.Minute, HeapMB: 12000, Workers: 6})
	}()
	return wg.Wait
}

// exploreResize runs the TxFile.tla configurations with max-size changes on open (ResizeHdr,
// ResizeSync, forced release commit, release of free pages beyond the limit in every commit).
func exploreResize(r *core.Run) func() {
	cfgs := []string{"MC_TxFile_resize_q.cfg"}
	if r.Thorough() {
		cfgs = []string{"MC_TxFile_resize.cfg", "MC_TxFile_resize2.cfg"}
	}
	var wg sync.WaitGroup
	wg.Add(1)
	go func() {
		defer wg.Done()
		for _, c := range cfgs {
			r.Explore(core.TLCOpts{Module: "MC_TxFile", Config: c, Timeout: 40 * time.Minute, HeapMB: 12000, Workers: 8})
		}
	}()
	return wg.Wait
}

// baseCfgs enumerates the configuration dimensions of the store.
func baseCfgs(r *core.Run, name string, n int, f func(i int, c *HistCfg)) []HistCfg {
	var out []HistCfg
	maxes := []uint64{64, 0, 96, 128}
	metas := []uint32{0, 4, 0, 8}
	wals := []uint{1000, 2, 1, 3}
	for i := 0; i < n; i++ {
		c := HistCfg{
			Name:     fmt.Sprintf("%s-%d", name, i),
			Seed:     r.Seed*100003 + int64(i)*7919 + 1,
			PageSize: 1024,
			MaxPages: maxes[i%4], InitMeta: metas[(i/4)%4], WALLimit: wals[(i/2)%4],
			Txs: 30, MaxOps: 6, AbortPct: 25, ReopenPct: 8, ReadAll: true, BigAlloc: 4, KeepSmall: 30,
		}
		if i%7 == 3 {
			c.PageSize = 4096
		}
		if i%5 == 4 {
			c.Overflow = true
		}
		if f != nil {
			f(i, &c)
		}
		out = append(out, c)
	}
	return out
}

// CheckC03: the store returns what was written.
func CheckC03(r *core.Run) {
	defer exploreTx(r)()
	defer exploreWriter(r)()
	r.Rule = "random transaction histories (alloc, full/partial SetBytes, Load+MarkDirty, free, Flush, CheckpointWAL, SetRoot, commit/rollback/close, reopen) over page size x max size x initial meta area x WAL limit; every read (inside write transactions, through readers after every transaction, after reopen) is judged by TLC against the sequential model of TxTrace.tla; distinct = distinct configurations/seeds"
	cfgs := baseCfgs(r, "c03", r.Pick(36, 240), func(i int, c *HistCfg) {
		c.Txs = r.Pick(30, 60)
	})
	if os.Getenv("VERIF_ONLY") == "txreplay" { // (development aid: the replay part alone)
		cfgs = nil
	}
	traces := histories(r, cfgs)
	// every timing of the background writer: batches with duplicate page ids (stalled disk)
	bs := batchScenarios()
	for _, t := range bs {
		r.AddDistinct(t.Name)
		r.AddEvals(int64(len(t.Events)))
	}
	traces = append(traces, bs...)
	// every behaviour of TxFile.tla within small bounds, replayed on the real store
	if r.Thorough() {
		traces = append(traces, replayTxFile(r, "TxReplay_t.cfg", 2, 10)...)
		traces = append(traces, replayTxFile(r, "TxReplay_t2.cfg", 3, 2)...)
		traces = append(traces, replayTxFileSim(r, "TxReplay_sim.cfg", 3, 3000, 120, 10)...)
	} else {
		traces = append(traces, replayTxFile(r, "TxReplay_q.cfg", 2, 3)...)
		traces = append(traces, replayTxFileSim(r, "TxReplay_sim.cfg", 3, 150, 120, 5)...)
	}
	if len(traces) > 0 && traces[0] != nil {
		n := len(traces[0].Events)
		if n > 12 {
			n = 12
		}
		r.AddSample(map[string]interface{}{"cfg": traces[0].Meta, "first_events": traces[0].Events[1:n]})
	}
	{
		for _, t := range traces {
			if t != nil && len(t.Events) > 300 {
				runSelfTest(r, "TxTrace", "TxTrace.cfg", t, txMutants())
				break
			}
		}
	}
	judgeWriter(r, traces, "C01", "C08")
	judgeTx(r, traces, reportOpts{})
}

func sampleTrace(r *core.Run, traces []*core.Trace) {
	for _, t := range traces {
		if t != nil && len(t.Events) > 3 {
			n := len(t.Events)
			if n > 10 {
				n = 10
			}
			r.AddSample(map[string]interface{}{"cfg": t.Meta, "first_events": stripBig(t.Events[1:n])})
			return
		}
	}
}

func stripBig(evs []core.Event) []core.Event {
	out := make([]core.Event, 0, len(evs))
	for _, e := range evs {
		c := core.Event{}
		for k, v := range e {
			if k == "disk" {
				continue
			}
			c[k] = v
		}
		out = append(out, c)
	}
	return out
}

// CheckC04: exclusive page ownership.
func CheckC04(r *core.Run) {
	defer exploreTx(r)()
	r.Rule = "random histories biased to allocation/free churn (frees of committed and of just allocated pages, overwrites consuming WAL pages, rollbacks, reopen, bounded/unbounded, pre-sized meta area, overflow transactions); every Alloc result is judged by TxTrace.tla!AllocOK and Ownership/Partition are evaluated on the real allocator projection after every operation; distinct = configurations/seeds"
	cfgs := baseCfgs(r, "c04", r.Pick(36, 240), func(i int, c *HistCfg) {
		c.Txs = r.Pick(40, 80)
		c.FreeBias = 10
		c.BigAlloc = 6
		c.AbortPct = 35
		c.NoIO = true
		c.WritePct = 50
		if i%3 == 0 {
			c.Overflow = true
			c.MaxPages = 64
			c.KeepSmall = 70 // fill the file
		}
	})
	traces := histories(r, cfgs)
	sc := c04Scenarios(r)
	for _, t := range sc {
		r.AddDistinct(t.Name)
		r.AddEvals(int64(len(t.Events)))
	}
	traces = append(traces, sc...)
	sampleTrace(r, traces)
	judgeTx(r, traces, reportOpts{})
}

// CheckC07: abort leaves no trace.
func CheckC07(r *core.Run) {
	defer exploreTx(r)()
	r.Rule = "random histories in which most transactions are aborted (Rollback, Close) after allocations from freelist and end of file, frees of old and new pages, overwrites growing the meta area and Flush; the complete projection after the abort must equal the one at Begin (TxTrace.tla!Abort), reads return the committed model, and the state after reopening is unchanged; distinct = configurations/seeds"
	cfgs := baseCfgs(r, "c07", r.Pick(36, 240), func(i int, c *HistCfg) {
		c.Txs = r.Pick(40, 80)
		c.AbortPct = 65
		c.ReopenPct = 15
		c.BigAlloc = 5
		c.WritePct = 50
		if i%2 == 0 {
			c.FailCommitPct = 30
		}
		if i%6 == 5 {
			c.MaxPages, c.KeepSmall = 64, 80 // commits fail because the file is full
		}
		if i%3 == 1 {
			c.Overflow = true
			c.MaxPages = 64
			c.KeepSmall = 70
		}
	})
	traces := histories(r, cfgs)
	sc := c07Scenarios(r)
	for _, t := range sc {
		r.AddDistinct(t.Name)
		r.AddEvals(int64(len(t.Events)))
	}
	traces = append(traces, sc...)
	sampleTrace(r, traces)
	judgeTx(r, traces, reportOpts{})
}

// CheckC11: space conservation, size limit, stats.
func CheckC11(r *core.Run) {
	defer exploreTx(r)()
	r.Rule = "long alloc/free cycles on small bounded files (no overflow transactions); Partition, MetaAccounting, Conservation (allocatable + live + meta + 2 = max), StatsTruthful and the extent bound are evaluated by TLC at every quiescent point on the real allocator projection; distinct = configurations/seeds"
	maxes := []uint64{64, 96, 70, 128, 65}
	cfgs := baseCfgs(r, "c11", r.Pick(30, 200), func(i int, c *HistCfg) {
		c.MaxPages = maxes[i%len(maxes)]
		c.Overflow = false
		c.Txs = r.Pick(60, 150)
		c.KeepSmall = int(c.MaxPages) // allow the file to fill up
		c.BigAlloc = 8
		c.FreeBias = 5
		c.NoIO = true
		c.ReadAll = false
		c.Prealloc = i%4 == 1
		if i%3 == 2 {
			c.MaxExtra = uint64(c.PageSize) / 2 // max size is not a multiple of the page size
		}
	})
	traces := histories(r, cfgs)
	sc := c11Scenarios(r)
	for _, t := range sc {
		r.AddDistinct(t.Name)
		r.AddEvals(int64(len(t.Events)))
	}
	traces = append(traces, sc...)
	sampleTrace(r, traces)
	judgeTx(r, traces, reportOpts{})
}

// CheckC10: close and reopen is lossless.
func CheckC10(r *core.Run) {
	defer exploreTx(r)()
	r.Rule = "random histories with a close+reopen after many transactions; the complete projection of the reopened file must equal the one before the close (TxTrace.tla!Reopen), ReopenStable is evaluated at every quiescent point, and the continued history is judged like any other; distinct = configurations/seeds"
	cfgs := baseCfgs(r, "c10", r.Pick(36, 200), func(i int, c *HistCfg) {
		c.Txs = r.Pick(40, 80)
		c.ReopenPct = 40
		c.KeepSmall = 40
	})
	traces := histories(r, cfgs)
	sampleTrace(r, traces)
	scen := c10Scenarios(r)
	for _, t := range scen {
		r.AddDistinct(t.Name)
		r.AddEvals(int64(len(t.Events)))
	}
	traces = append(traces, scen...)
	judgeTx(r, traces, reportOpts{})
}
