package checks

import (
	"fmt"
	"math/rand"
	"sort"
	"strings"

	txfile "github.com/elastic/go-txfile"

	"verif/core"
	"verif/fenv"
	"verif/simdisk"
)

// HistCfg parameterises a random history on one file.
type HistCfg struct {
	Tick          *int64            // progress counter for the watchdog (set by the caller)
	Script        func(e *fenv.Env) // fixed scenario executed before the random transactions (Txs may be 0)
	Name          string
	Seed          int64
	PageSize      uint32
	MaxPages      uint64 // 0 = unbounded
	InitMeta      uint32
	Prealloc      bool
	WALLimit      uint
	Overflow      bool // allow transactions with EnableOverflowArea
	Txs           int
	MaxOps        int
	AbortPct      int // percentage of transactions ending in Rollback/Close
	ReopenPct     int // percentage of transactions followed by close+reopen
	ReadAll       bool
	NoIO          bool // do not record I/O events
	BigAlloc      int  // upper bound for AllocN
	FreeBias      int  // percentage boost for frees
	GrowMeta      bool
	KeepSmall     int    // try to keep the number of live pages below this bound (0 = none)
	WritePct      int    // percentage of freshly allocated pages that are written at once (default 80)
	ReadEvery     int    // read everything after every n-th transaction
	MaxExtra      uint64 // bytes added to the max size (max size not a multiple of the page size)
	FailCommitPct int    // percentage of commits that hit an injected write/sync failure
	OnTxEnd       func(e *fenv.Env, i int)
	BeforeTxEnd   func(e *fenv.Env, i int) bool // return false to leave the transaction open (caller ends it)
}

func (c HistCfg) String() string {
	return fmt.Sprintf("%s seed=%d ps=%d max=%d initmeta=%d wallimit=%d overflow=%v txs=%d abort=%d%% reopen=%d%%",
		c.Name, c.Seed, c.PageSize, c.MaxPages, c.InitMeta, c.WALLimit, c.Overflow, c.Txs, c.AbortPct, c.ReopenPct)
}

func (c HistCfg) options() txfile.Options {
	maxSize := c.MaxPages * uint64(c.PageSize)
	if maxSize > 0 {
		maxSize += c.MaxExtra
	}
	return txfile.Options{PageSize: c.PageSize, MaxSize: maxSize, InitMetaArea: c.InitMeta, Prealloc: c.Prealloc}
}

func sortedKeys(m map[uint64]bool) []uint64 {
	out := make([]uint64, 0, len(m))
	for k := range m {
		out = append(out, k)
	}
	sort.Slice(out, func(i, j int) bool { return out[i] < out[j] })
	return out
}

// txLive returns the pages the running transaction may touch.
func txLive(e *fenv.Env) []uint64 {
	m := map[uint64]bool{}
	for id := range e.Live {
		if !e.TxFreed[id] {
			m[id] = true
		}
	}
	for id := range e.TxNew {
		if !e.TxFreed[id] {
			m[id] = true
		}
	}
	return sortedKeys(m)
}

// RunTxBody executes a random transaction body (without ending the transaction).
func RunTxBody(e *fenv.Env, rng *rand.Rand, c HistCfg) {
	nops := 1 + rng.Intn(c.MaxOps)
	for i := 0; i < nops; i++ {
		live := txLive(e)
		writable := live[:0:0]
		for _, id := range live {
			if !e.TxFlush[id] {
				writable = append(writable, id)
			}
		}
		r := rng.Intn(100)
		tooBig := c.KeepSmall > 0 && len(live) > c.KeepSmall
		switch {
		case r < 25 && !tooBig || len(live) == 0:
			n := 1 + rng.Intn(max(1, c.BigAlloc))
			ids, err := e.Alloc(n)
			wp := c.WritePct
			if wp == 0 {
				wp = 80
			}
			if err == nil {
				for _, id := range ids {
					if rng.Intn(100) < wp {
						e.Set(id, []int{4, 4, 4, 2, 1}[rng.Intn(5)])
					}
				}
				if rng.Intn(100) >= wp {
					// free some of the fresh pages again and allocate once more
					for _, id := range ids {
						if !e.TxDirty[id] && rng.Intn(2) == 0 {
							e.Free(id)
						}
					}
					if rng.Intn(2) == 0 {
						if ids2, err := e.Alloc(1 + rng.Intn(2)); err == nil && rng.Intn(2) == 0 {
							e.Set(ids2[0], 4)
						}
					}
				}
			}
		case r < 50 && len(writable) > 0:
			id := writable[rng.Intn(len(writable))]
			e.Set(id, []int{4, 4, 3, 2, 1}[rng.Intn(5)])
		case r < 60 && len(writable) > 0:
			id := writable[rng.Intn(len(writable))]
			e.LoadSet(id, 1+rng.Intn(4))
		case r < 75+c.FreeBias || tooBig:
			// free a page that is not dirty
			var cand []uint64
			for _, id := range live {
				if !e.TxDirty[id] {
					cand = append(cand, id)
				}
			}
			if len(cand) > 0 {
				id := cand[rng.Intn(len(cand))]
				if id == e.TxRoot {
					e.SetRoot(0)
				}
				e.Free(id)
			}
		case r < 82:
			e.Flush()
		case r < 86:
			e.Checkpoint()
		case r < 92 && len(live) > 0:
			e.SetRoot(live[rng.Intn(len(live))])
		default:
			if len(live) > 0 {
				e.ReadW(live[rng.Intn(len(live))])
			}
		}
	}
	// read back everything the transaction sees
	if rng.Intn(3) == 0 {
		for _, id := range txLive(e) {
			e.ReadW(id)
		}
	}
}

// RunHistory runs a random history and returns its trace. Panics of the real
// code are recorded as events (they are behaviour).
func RunHistory(c HistCfg) (tr *core.Trace, env *fenv.Env) {
	return runHistoryWith(c, nil, nil)
}

func runHistoryWith(c HistCfg, afterOpen func(e *fenv.Env), atEnd func(e *fenv.Env)) (tr *core.Trace, env *fenv.Env) {
	rng := rand.New(rand.NewSource(c.Seed))
	e := fenv.New(c.Name, c.options())
	e.Tick = c.Tick
	e.IO = !c.NoIO
	tr = &core.Trace{Name: c.Name, Meta: c.String()}
	env = e
	defer func() {
		if p := recover(); p != nil {
			e.Emit(core.Event{"ev": "Panic", "msg": fmt.Sprint(p), "stack": core.ShortStack()})
		}
		tr.Events = e.Events()
		tr.Writer = e.WriterEvents()
	}()
	if err := e.Open(nil, 0); err != nil {
		e.Emit(core.Event{"ev": "OpenFailed", "err": fenv.ErrKind(err), "msg": fmt.Sprintf("%+v", err)})
		return
	}
	if afterOpen != nil {
		afterOpen(e)
	}
	if c.Script != nil {
		c.Script(e)
	}
	if atEnd != nil {
		defer func() {
			if p := recover(); p != nil {
				e.Emit(core.Event{"ev": "Panic", "msg": fmt.Sprint(p), "stack": core.ShortStack()})
			} else {
				atEnd(e)
			}
		}()
	}
	for i := 0; i < c.Txs; i++ {
		opts := txfile.TxOptions{WALLimit: c.WALLimit}
		if c.Overflow && rng.Intn(4) == 0 {
			opts.EnableOverflowArea = true
		}
		if err := e.Begin(opts); err != nil {
			return
		}
		RunTxBody(e, rng, c)
		if c.BeforeTxEnd != nil && !c.BeforeTxEnd(e, i) {
			continue
		}
		if rng.Intn(100) < c.AbortPct {
			e.Rollback(rng.Intn(2) == 0)
		} else if c.FailCommitPct > 0 && rng.Intn(100) < c.FailCommitPct {
			// the k-th write or sync of this commit fails (burst of 1..3 calls)
			// (never the final sync: a failed final sync may legitimately leave the new
			// state on disk - that case belongs to C08)
			k, burst, kind := rng.Intn(4), 1+rng.Intn(3), []string{"w", "w", "sync"}[rng.Intn(3)]
			if kind == "sync" {
				k, burst = 0, 1
			}
			n := 0
			e.Disk.Fault = func(op string, nth, idx int) simdisk.FaultMode {
				if op != kind {
					return simdisk.NoFault
				}
				n++
				if n > k && n <= k+burst {
					return simdisk.FailBefore
				}
				return simdisk.NoFault
			}
			e.Emit(core.Event{"ev": "Note", "what": "fault-armed", "kind": kind, "k": k, "burst": burst})
			e.Commit()
			e.Disk.Fault = nil
		} else {
			e.Commit()
		}
		if c.ReadAll || (c.ReadEvery > 0 && i%c.ReadEvery == 0) {
			e.ReadAll(fmt.Sprintf("ra%d", i))
		}
		if c.OnTxEnd != nil {
			c.OnTxEnd(e, i)
		}
		if rng.Intn(100) < c.ReopenPct {
			if err := e.Reopen(txfile.Options{}); err != nil {
				return
			}
			if c.ReadAll {
				e.ReadAll(fmt.Sprintf("rr%d", i))
			}
		}
	}
	if atEnd == nil {
		e.Close()
	}
	return
}

// ---------------------------------------------------------------------------
// reporting

func lastEvName(rj core.Reject) string {
	if rj.Event == nil {
		return ""
	}
	return fmt.Sprint(rj.Event["ev"])
}

// reportOpts says which recorded deviations count for the running check.
type reportOpts struct {
	Mine    []string                    // properties whose deviations are violations of the running check
	Context func(rj core.Reject) string // refinement of the signature (fault runs)
	Skip    func(rj core.Reject) bool   // deviations that belong to another check (reported there)
}

// Report turns the outcome of a TxTrace judgement into violations: deviations
// recorded for the properties in o.Mine, and traces the specification could
// not follow at all (panic, hang, failing reopen).
func Report(r *core.Run, rejects []core.Reject, o reportOpts) {
	mine := map[string]bool{r.Prop: true}
	for _, p := range o.Mine {
		mine[p] = true
	}
	others := map[string]int{}
	for _, d := range r.TakeDevs() {
		name := strings.TrimPrefix(d.Kind, "dev:")
		if !mine[d.Prop] || (o.Skip != nil && o.Skip(d)) {
			others[d.Prop+":"+name]++
			continue
		}
		sig := fmt.Sprintf("tx:%s:%s", name, lastEvName(d))
		if o.Context != nil {
			sig += o.Context(d)
		}
		path := r.SaveReplay(safeName(d.Trace.Name)+".ndjson", d.Trace.Serialize())
		r.Violate(core.Violation{Signature: sig, What: d.Describe() + fmt.Sprintf(" [%v]", d.Trace.Meta), Replay: path})
	}
	if len(others) > 0 {
		r.SetExtra("deviations_recorded_for_other_properties", others)
	}
	for _, rj := range rejects {
		if o.Skip != nil && o.Skip(rj) {
			continue
		}
		ev := lastEvName(rj)
		sig := fmt.Sprintf("tx:%s:%s", rj.Kind, ev)
		if o.Context != nil {
			sig += o.Context(rj)
		}
		path := r.SaveReplay(safeName(rj.Trace.Name)+".ndjson", rj.Trace.Serialize())
		what := rj.Describe() + fmt.Sprintf(" [%v]", rj.Trace.Meta)
		switch ev {
		case "Panic", "Hang":
			r.Violate(core.Violation{Signature: sig, What: what, Replay: path})
		case "ReopenFailed", "OpenFailed":
			if mine["C10"] || mine["C07"] || mine["C08"] || mine["C14"] || mine["C01"] {
				r.Violate(core.Violation{Signature: sig, What: what, Replay: path})
			} else {
				r.Break("trace could not be followed (concerns another property): %s (replay %s)", what, path)
			}
		default:
			r.Break("trace could not be followed by TxTrace.tla: %s (replay %s)", what, path)
		}
	}
}

func safeName(s string) string {
	return strings.NewReplacer("/", "_", " ", "_", "=", "-").Replace(s)
}

func firstLines(s string, n int) string {
	lines := strings.Split(s, "\n")
	if len(lines) > n {
		lines = lines[:n]
	}
	return strings.Join(lines, "\n")
}

func max(a, b int) int {
	if a > b {
		return a
	}
	return b
}
