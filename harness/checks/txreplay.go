package checks

import (
	"fmt"
	"hash/fnv"
	"sort"
	"strconv"
	"strings"
	"sync"
	"time"

	txfile "github.com/elastic/go-txfile"

	"verif/core"
	"verif/fenv"
)

// Replay of the behaviours of TxFile.tla on the real store (specification ->
// code).  TLC enumerates every transition of TxReplay.tla and prints the path
// of public calls leading to it, with the logical file (root, live pages,
// content versions) the specification predicts at every quiescent point and
// for every reader snapshot.  Each maximal path is executed on a fresh file;
// the page ids of the specification are mapped to the ids the real allocator
// returns.  Compared after every transaction end, reader end and reopen:
// root, set of live pages (from the real allocator state), contents of every
// written page.  Every call the specification takes must succeed.  The
// recorded execution is returned for TxTrace.tla as well.

type logical struct {
	root  int
	pages map[int]int // spec page -> spec version (-1: undefined contents)
}

func parseLogical(s string) (logical, error) {
	l := logical{pages: map[int]int{}}
	i := strings.IndexByte(s, '/')
	if i < 0 {
		return l, fmt.Errorf("bad logical state %q", s)
	}
	var err error
	if l.root, err = strconv.Atoi(s[:i]); err != nil {
		return l, err
	}
	for _, kv := range strings.Split(s[i+1:], ";") {
		if kv == "" {
			continue
		}
		j := strings.IndexByte(kv, '=')
		if j < 0 {
			return l, fmt.Errorf("bad page %q", kv)
		}
		p, err := strconv.Atoi(kv[:j])
		if err != nil {
			return l, err
		}
		v := -1
		if kv[j+1:] != "u" {
			if v, err = strconv.Atoi(kv[j+1:]); err != nil {
				return l, err
			}
		}
		l.pages[p] = v
	}
	return l, nil
}

type txReplayMismatch struct {
	kind, what string
	step       int
}

// replayTxPath executes one path. It returns the recorded trace and the first mismatch (if any).
func replayTxPath(name, path string, walLimit uint) (*core.Trace, *txReplayMismatch) {
	steps := strings.Split(strings.TrimSuffix(path, ","), ",")
	var mm *txReplayMismatch
	fail := func(i int, kind, format string, a ...interface{}) {
		if mm == nil {
			mm = &txReplayMismatch{kind: kind, what: fmt.Sprintf("step %d (%s): ", i, steps[i]) + fmt.Sprintf(format, a...), step: i}
		}
	}
	h := fnv.New32a()
	h.Write([]byte(path))
	closeOnly := h.Sum32()%2 == 0

	tr := scenario(name, txfile.Options{PageSize: 1024}, false, func(e *fenv.Env) {
		ids := map[int]uint64{}  // spec page -> real page
		vers := map[int]int{}    // spec version -> real version
		var idsAtBegin map[int]uint64
		readers := map[string]*fenv.Reader{}

		compare := func(i int, l logical, viaReader *fenv.Reader) {
			if viaReader != nil {
				// the snapshot of the reader: root and every page
				if got := uint64(viaReader.Tx.Root()); got != ids[l.root] && !(l.root == 0 && got == 0) {
					fail(i, "ReaderRoot", "reader sees root %d, specification: %d (real id %d)", got, l.root, ids[l.root])
				}
				for p, v := range l.pages {
					q, err := fenv.ReadPage(viaReader.Tx, ids[p])
					e.Emit(core.Event{"ev": "ReadR", "r": viaReader.Name, "id": ids[p], "q": q, "err": fenv.ErrKind(err)})
					if v < 0 {
						continue
					}
					want := vers[v]
					if err != nil || q != [4]int{want, want, want, want} {
						fail(i, "ReaderContents", "reader reads page %d (real %d) = %v err=%v, specification: version %d (real %d)", p, ids[p], q, err, v, want)
					}
				}
				return
			}
			root, _, model, err := fenv.ReadLogical(e.F)
			if err != nil {
				fail(i, "ReadFailed", "reading the committed state failed: %v", err)
				return
			}
			wantRoot := uint64(0)
			if l.root != 0 {
				wantRoot = ids[l.root]
			}
			if root != wantRoot {
				fail(i, "Root", "root is %d, specification: page %d (real id %d)", root, l.root, wantRoot)
			}
			want := map[uint64]int{}
			for p, v := range l.pages {
				want[ids[p]] = v
			}
			if len(model) != len(want) {
				fail(i, "LiveSet", "live pages of the real file %v, specification %v (real ids %v)", keysOf(model), l.pages, want)
			}
			for id, v := range want {
				q, ok := model[id]
				if !ok {
					fail(i, "LiveSet", "page %d is not live in the real file; live: %v", id, keysOf(model))
					continue
				}
				if v >= 0 {
					w := vers[v]
					if q != [4]int{w, w, w, w} {
						fail(i, "Contents", "page %d holds %v, specification: version %d (real %d)", id, q, v, w)
					}
				}
			}
		}

		for i, s := range steps {
			if mm != nil {
				return
			}
			arg := ""
			if k := strings.IndexByte(s, ':'); k >= 0 {
				s, arg = s[:k], s[k+1:]
			}
			switch {
			case s == "B":
				if err := e.Begin(txfile.TxOptions{WALLimit: walLimit}); err != nil {
					fail(i, "CallFailed", "Begin: %v", err)
				}
				idsAtBegin = map[int]uint64{}
				for k, v := range ids {
					idsAtBegin[k] = v
				}
			case s[0] == 'A':
				p, _ := strconv.Atoi(s[1:])
				got, err := e.Alloc(1)
				if err != nil || len(got) != 1 {
					fail(i, "CallFailed", "Alloc: %v", err)
					return
				}
				ids[p] = got[0]
			case s[0] == 'W':
				k := strings.IndexByte(s, '=')
				p, _ := strconv.Atoi(s[1:k])
				v, _ := strconv.Atoi(s[k+1:])
				if err := e.Set(ids[p], 4); err != nil {
					fail(i, "CallFailed", "SetBytes on page %d (real %d): %v", p, ids[p], err)
				}
				vers[v] = e.LastVer()
			case s[0] == 'F':
				p, _ := strconv.Atoi(s[1:])
				if err := e.Free(ids[p]); err != nil {
					fail(i, "CallFailed", "Free of page %d (real %d): %v", p, ids[p], err)
				}
			case s[0] == 'S':
				p, _ := strconv.Atoi(s[1:])
				if p == 0 {
					e.SetRoot(0)
				} else {
					e.SetRoot(ids[p])
				}
			case s == "P":
				if err := e.Checkpoint(); err != nil {
					fail(i, "CallFailed", "CheckpointWAL: %v", err)
				}
			case s == "L":
				if err := e.Flush(); err != nil {
					fail(i, "CallFailed", "Flush: %v", err)
				}
			case s == "K":
				if err := e.Rollback(closeOnly); err != nil {
					fail(i, "CallFailed", "Rollback: %v", err)
				}
				ids = idsAtBegin
				l, err := parseLogical(arg)
				if err != nil {
					panic(err)
				}
				compare(i, l, nil)
			case s == "C":
				if err := e.Commit(); err != nil {
					fail(i, "CallFailed", "Commit: %v", err)
				}
			case s == "D", s == "O":
				if s == "O" {
					if err := e.Reopen(txfile.Options{}); err != nil {
						fail(i, "CallFailed", "reopen: %v", err)
						return
					}
				}
				l, err := parseLogical(arg)
				if err != nil {
					panic(err)
				}
				compare(i, l, nil)
			case s[0] == 'R':
				rd, err := e.BeginRead(s[1:], e.Tx == nil)
				if err != nil {
					fail(i, "CallFailed", "BeginReadonly: %v", err)
					return
				}
				readers[s[1:]] = rd
			case s[0] == 'E':
				rd := readers[s[1:]]
				l, err := parseLogical(arg)
				if err != nil {
					panic(err)
				}
				compare(i, l, rd)
				e.EndRead(rd, e.Tx == nil)
				delete(readers, s[1:])
			default:
				panic("unknown step " + s)
			}
		}
		// leave nothing open
		for _, rd := range readers {
			e.EndRead(rd, e.Tx == nil)
		}
		if e.Tx != nil {
			e.Rollback(true)
		}
	})
	tr.Meta = path
	return tr, mm
}

func keysOf(m map[uint64][4]int) []uint64 {
	out := make([]uint64, 0, len(m))
	for k := range m {
		out = append(out, k)
	}
	sort.Slice(out, func(i, j int) bool { return out[i] < out[j] })
	return out
}

// replayTxFile generates and replays; the returned traces are meant to be judged by TxTrace.
// (all paths are compared with the predictions of the specification; every judgeEvery-th
// recorded execution is returned for the judge)
func replayTxFile(r *core.Run, cfg string, walLimit uint, judgeEvery int) []*core.Trace {
	return replayTxFileOpts(r, core.TLCOpts{Module: "TxReplay", Config: cfg, Workers: 4, Timeout: 30 * time.Minute, HeapMB: 8192}, walLimit, judgeEvery)
}

// replayTxFileSim replays random walks of TxReplay.tla (tlc -simulate) with larger bounds: deeper
// histories than the exhaustive configurations reach, still with the specification's predictions.
func replayTxFileSim(r *core.Run, cfg string, walLimit uint, num, depth int, judgeEvery int) []*core.Trace {
	return replayTxFileOpts(r, core.TLCOpts{Module: "TxReplay", Config: cfg, Workers: 1, Timeout: 30 * time.Minute, HeapMB: 4096,
		Simulate: fmt.Sprintf("num=%d", num), Depth: depth, Seed: r.Seed + 11}, walLimit, judgeEvery)
}

func replayTxFileOpts(r *core.Run, o core.TLCOpts, walLimit uint, judgeEvery int) []*core.Trace {
	cfg := o.Config
	gen, err := core.RunTLC(r.Scratch, o)
	simOK := o.Simulate != "" && gen != nil && strings.Contains(gen.Output, "traces generated") && !strings.Contains(gen.Output, "Error:")
	if err != nil || !(gen.OK || simOK) {
		r.Break("TxReplay generator failed: %v %s", err, tail(gen))
		return nil
	}
	var paths []string
	for _, p := range gen.Prints {
		if strings.HasPrefix(p, "@P ") {
			paths = append(paths, strings.TrimPrefix(p, "@P "))
		}
	}
	gen.Cleanup()
	max := maximalPaths(paths)
	r.SetExtra("txreplay_"+cfg, map[string]interface{}{"graph_states": gen.Distinct, "transitions": len(paths), "maximal_paths_replayed": len(max), "judged_by_TxTrace_every": judgeEvery})
	if len(max) > 0 {
		r.AddSample(map[string]interface{}{"replayed_txfile_path": max[len(max)/2]})
	}

	traces := make([]*core.Trace, len(max))
	mms := make([]*txReplayMismatch, len(max))
	var wg sync.WaitGroup
	sem := make(chan struct{}, 12)
	for i, p := range max {
		wg.Add(1)
		sem <- struct{}{}
		go func(i int, p string) {
			defer wg.Done()
			defer func() { <-sem }()
			traces[i], mms[i] = replayTxPath(fmt.Sprintf("txreplay-%s-%d", strings.TrimSuffix(strings.TrimPrefix(cfg, "TxReplay_"), ".cfg"), i), p, walLimit)
		}(i, p)
	}
	wg.Wait()
	reported := map[string]int{}
	for i, m := range mms {
		r.AddDistinct("txreplay:" + max[i])
		r.AddEvals(int64(len(traces[i].Events)))
		if m == nil {
			continue
		}
		sig := "txreplay:" + m.kind
		if reported[sig] >= 3 {
			continue
		}
		reported[sig]++
		path := r.SaveReplay(traces[i].Name+".ndjson", traces[i].Serialize())
		r.Violate(core.Violation{Signature: sig, What: fmt.Sprintf("behaviour of TxFile.tla %q: %s", max[i], m.what), Replay: path})
	}
	var out []*core.Trace
	for i, t := range traces {
		if i%judgeEvery == 0 || mms[i] != nil {
			out = append(out, t)
		}
	}
	return out
}

var _ = time.Second
