package checks

import (
	"bytes"
	"io"
	"os"
)

func bytesReader(b []byte) io.Reader { return bytes.NewReader(b) }
func os_RemoveAll(p string)          { os.RemoveAll(p) }
