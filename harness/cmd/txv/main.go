// txv is the conformance harness driver: txv <property> <quick|thorough>
package main

import (
	"fmt"
	"os"
	"strconv"

	"verif/checks"
	"verif/core"
)

func main() {
	if len(os.Args) < 3 {
		fmt.Fprintln(os.Stderr, "usage: txv <Cxx> <quick|thorough> [--replay path]")
		os.Exit(2)
	}
	prop, tier := os.Args[1], os.Args[2]
	if tier == "race" {
		// race-detector build: run the concurrent drivers only (no judgement); data races are
		// reported by the Go runtime on stderr
		if fn := checks.RaceDrivers[prop]; fn != nil {
			fn()
		}
		os.Exit(0)
	}
	if tier != "quick" && tier != "thorough" {
		fmt.Fprintln(os.Stderr, "tier must be quick or thorough")
		os.Exit(2)
	}
	if d := os.Getenv("VERIF_DIR"); d != "" {
		core.VerifDir = d
		core.SpecDir = d + "/spec"
	}
	seed := int64(1)
	if s := os.Getenv("VERIF_SEED"); s != "" {
		if v, err := strconv.ParseInt(s, 10, 64); err == nil {
			seed = v
		}
	}
	fn := checks.Registry[prop]
	if fn == nil {
		fmt.Fprintln(os.Stderr, "unknown property", prop)
		os.Exit(2)
	}
	if len(os.Args) >= 5 && os.Args[3] == "--replay" {
		os.Exit(checks.Replay(prop, os.Args[4]))
	}
	run, err := core.NewRun(prop, tier, seed)
	if err != nil {
		fmt.Fprintln(os.Stderr, err)
		os.Exit(2)
	}
	func() {
		defer func() {
			if p := recover(); p != nil {
				run.Break("harness panic: %v", p)
			}
		}()
		fn(run)
	}()
	os.Exit(run.Finish())
}
