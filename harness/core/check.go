package core

import (
	"bufio"
	"encoding/json"
	"fmt"
	"os"
	"path/filepath"
	"runtime"
	"sort"
	"strings"
	"sync"
	"time"
)

// VerifDir is the root of the verification framework.
var VerifDir = "/verif"

// Violation is a property violation observed on the real code.
type Violation struct {
	Prop      string
	Signature string // stable identification of *what* fails (matched against known findings)
	What      string // human readable description
	Replay    string // path of the replay artefact
}

// Run collects what one check run covered.
type Run struct {
	Prop    string
	Tier    string
	Seed    int64
	Scratch string
	Start   time.Time

	mu          sync.Mutex
	States      int64
	Transitions int64
	Traces      int // traces validated against the implementation
	Events      int64
	Evals       int64
	Distinct    map[string]struct{}
	Samples     []interface{}
	Extra       map[string]interface{}
	Assumptions []string
	Violations  []Violation
	Broken      []string // machinery failures (exit 2)
	Explorer    []map[string]interface{}
	Rule        string
	devs        []Reject // deviations recorded by trace specifications
}

// TakeDevs returns and clears the recorded deviations.
func (r *Run) TakeDevs() []Reject {
	r.mu.Lock()
	defer r.mu.Unlock()
	d := r.devs
	r.devs = nil
	return d
}

// NewRun prepares a run with its scratch directory.
func NewRun(prop, tier string, seed int64) (*Run, error) {
	base := os.Getenv("VERIF_SCRATCH")
	if base == "" {
		base = os.TempDir()
	}
	dir, err := os.MkdirTemp(base, "verif-"+prop+"-")
	if err != nil {
		return nil, err
	}
	return &Run{Prop: prop, Tier: tier, Seed: seed, Scratch: dir, Start: time.Now(),
		Distinct: map[string]struct{}{}, Extra: map[string]interface{}{},
		Assumptions: []string{
			"TLC 1.8 and the CommunityModules Json module are trusted",
			"the harness' abstraction function (projection of the real state, independent page decoders) is trusted",
			"verdicts come from behaviour of the real code only; a counterexample of the model alone, a timeout or a harness failure is exit 2",
		}}, nil
}

// Thorough reports whether the thorough tier is running.
func (r *Run) Thorough() bool { return r.Tier == "thorough" }

// Pick returns q for the quick tier and t for the thorough tier.
func (r *Run) Pick(q, t int) int {
	if r.Thorough() {
		return t
	}
	return q
}

func (r *Run) AddSample(s interface{}) {
	r.mu.Lock()
	defer r.mu.Unlock()
	if len(r.Samples) < 6 {
		r.Samples = append(r.Samples, s)
	}
}

func (r *Run) AddDistinct(key string) {
	r.mu.Lock()
	defer r.mu.Unlock()
	r.Distinct[key] = struct{}{}
}

func (r *Run) AddEvals(n int64) {
	r.mu.Lock()
	r.Evals += n
	r.mu.Unlock()
}

func (r *Run) Assume(s string) {
	r.mu.Lock()
	defer r.mu.Unlock()
	for _, a := range r.Assumptions {
		if a == s {
			return
		}
	}
	r.Assumptions = append(r.Assumptions, s)
}

func (r *Run) Violate(v Violation) {
	r.mu.Lock()
	defer r.mu.Unlock()
	if v.Prop == "" {
		v.Prop = r.Prop
	}
	for _, o := range r.Violations {
		if o.Signature == v.Signature {
			return
		}
	}
	r.Violations = append(r.Violations, v)
}

func (r *Run) Break(format string, a ...interface{}) {
	r.mu.Lock()
	defer r.mu.Unlock()
	r.Broken = append(r.Broken, fmt.Sprintf(format, a...))
}

// SetExtra records an additional coverage key (safe for concurrent use).
func (r *Run) SetExtra(k string, v interface{}) {
	r.mu.Lock()
	r.Extra[k] = v
	r.mu.Unlock()
}

// Explore runs an exhaustive TLC configuration and records its statistics.
// A counterexample on the model alone is machinery failure (exit 2), never a
// violation: verdicts come from the real code only.
func (r *Run) Explore(o TLCOpts) *TLCResult {
	if o.Workers == 0 {
		o.Workers = runtime.NumCPU()
		if o.Workers > 12 {
			o.Workers = 12
		}
	}
	res, err := RunTLC(r.Scratch, o)
	if err != nil {
		r.Break("explorer %s/%s: %v", o.Module, o.Config, err)
		return nil
	}
	r.mu.Lock()
	r.States += res.Distinct
	r.Transitions += res.Generated
	r.Explorer = append(r.Explorer, map[string]interface{}{
		"module": o.Module, "config": o.Config, "distinct_states": res.Distinct,
		"states_generated": res.Generated, "depth": res.Depth, "ok": res.OK, "wall_s": res.Wall.Seconds(),
	})
	r.mu.Unlock()
	if !res.OK {
		r.Break("explorer %s/%s did not complete cleanly (violated=%q timeout=%v):\n%s", o.Module, o.Config, res.Violated, res.TimedOut, res.Tail(40))
	}
	if o.Coverage && len(res.ZeroCov) > 0 {
		// actions never taken => vacuity
		r.SetExtra("zero_coverage_"+o.Config, res.ZeroCov)
	}
	return res
}

// Finding is one line of known-findings.jsonl.
type Finding struct {
	Status    string `json:"status"` // "known" | "fixed"
	Property  string `json:"property"`
	Signature string `json:"signature"`
	Commit    string `json:"commit,omitempty"`
	What      string `json:"what"`
}

// LoadFindings reads /verif/known-findings.jsonl.
func LoadFindings() []Finding {
	f, err := os.Open(filepath.Join(VerifDir, "known-findings.jsonl"))
	if err != nil {
		return nil
	}
	defer f.Close()
	var out []Finding
	sc := bufio.NewScanner(f)
	sc.Buffer(make([]byte, 1<<20), 1<<20)
	for sc.Scan() {
		line := strings.TrimSpace(sc.Text())
		if line == "" || strings.HasPrefix(line, "#") {
			continue
		}
		var fd Finding
		if json.Unmarshal([]byte(line), &fd) == nil {
			out = append(out, fd)
		}
	}
	return out
}

// Finish writes the evidence file, prints the verdict lines and returns the exit code.
func (r *Run) Finish() int {
	defer os.RemoveAll(r.Scratch)
	known := map[string]Finding{}
	for _, f := range LoadFindings() {
		if f.Status == "known" {
			known[f.Property+"|"+f.Signature] = f
		}
	}
	var unlisted []Violation
	printed := map[string]bool{}
	for _, v := range r.Violations {
		var hit *Finding
		if f, ok := known[v.Prop+"|"+v.Signature]; ok {
			hit = &f
		} else {
			// a listed signature may use * for one or more ':'-separated fields in front of a
			// fixed context suffix (consequences of a known finding inside the same history)
			for _, f := range known {
				f := f
				if f.Property == v.Prop && strings.Contains(f.Signature, "*") && globMatch(f.Signature, v.Signature) {
					hit = &f
					break
				}
			}
		}
		if hit != nil {
			if !printed[hit.Signature] {
				printed[hit.Signature] = true
				fmt.Printf("KNOWN-FINDING: property=%s %s [%s]\n", v.Prop, hit.What, hit.Signature)
			}
			continue
		}
		unlisted = append(unlisted, v)
	}

	level := "model_checking"
	cov := map[string]interface{}{
		"states":                        r.States,
		"transitions":                   r.Transitions,
		"traces_validated_against_impl": r.Traces,
		"trace_events_validated":        r.Events,
		"evaluations":                   r.Evals,
		"distinct_nontrivial":           len(r.Distinct),
		"rule":                          r.Rule,
		"explorer_runs":                 r.Explorer,
	}
	samples := r.Samples
	if len(samples) == 0 {
		samples = []interface{}{"(no sample recorded)"}
	}
	cov["samples"] = samples
	keys := make([]string, 0, len(r.Extra))
	for k := range r.Extra {
		keys = append(keys, k)
	}
	sort.Strings(keys)
	for _, k := range keys {
		cov[k] = r.Extra[k]
	}
	if r.States == 0 {
		// schema: states >= 1 for model_checking; fall back to generic keys
		delete(cov, "states")
		delete(cov, "transitions")
	}
	ev := map[string]interface{}{
		"property_id": r.Prop,
		"tier":        r.Tier,
		"seed":        r.Seed,
		"level":       level,
		"coverage":    cov,
		"assumptions": r.Assumptions,
		"wall_s":      time.Since(r.Start).Seconds(),
		"violations":  len(unlisted), // violations not listed as known findings
	}
	if n := len(r.Violations) - len(unlisted); n > 0 {
		cov["observations_matching_known_findings"] = n
	}
	if len(r.Broken) > 0 {
		ev["machinery_failures"] = r.Broken
	}
	b, _ := json.MarshalIndent(ev, "", " ")
	evDir := filepath.Join(VerifDir, "evidence")
	if os.Getenv("VERIF_REPO") != "" {
		evDir = filepath.Join(evDir, "scratch") // experiment against a scratch checkout: not evidence
	}
	os.MkdirAll(evDir, 0755)
	if err := os.WriteFile(filepath.Join(evDir, r.Prop+".json"), b, 0644); err != nil {
		fmt.Fprintln(os.Stderr, "cannot write evidence:", err)
		return 2
	}

	for _, v := range unlisted {
		fmt.Printf("VIOLATION property=%s replay=%s\n", v.Prop, v.Replay)
		fmt.Printf("  signature: %s\n  what: %s\n", v.Signature, v.What)
	}
	if len(unlisted) > 0 {
		return 1
	}
	if len(r.Broken) > 0 {
		for _, b := range r.Broken {
			fmt.Fprintln(os.Stderr, "MACHINERY-FAILURE:", b)
		}
		return 2
	}
	fmt.Printf("OK property=%s tier=%s seed=%d states=%d transitions=%d traces=%d events=%d wall=%.1fs\n",
		r.Prop, r.Tier, r.Seed, r.States, r.Transitions, r.Traces, r.Events, time.Since(r.Start).Seconds())
	return 0
}

// SaveReplay stores a replay artefact under /verif/evidence/replay and returns its path.
func (r *Run) SaveReplay(name string, data []byte) string {
	dir := filepath.Join(VerifDir, "evidence", "replay")
	os.MkdirAll(dir, 0755)
	p := filepath.Join(dir, fmt.Sprintf("%s-%s-seed%d-%s", r.Prop, r.Tier, r.Seed, name))
	os.WriteFile(p, data, 0644)
	return p
}

// ShortStack returns the innermost frames of the current goroutine that belong to go-txfile.
func ShortStack() []string {
	buf := make([]byte, 1<<16)
	buf = buf[:runtime.Stack(buf, false)]
	out := []string{} // never nil: the Json module of TLC does not accept null
	for _, l := range strings.Split(string(buf), "\n") {
		if strings.Contains(l, "/repo/") || strings.Contains(l, "go-txfile") {
			out = append(out, strings.TrimSpace(l))
		}
		if len(out) >= 16 {
			break
		}
	}
	return out
}

// globMatch matches pattern (with * standing for any substring) against s.
func globMatch(pattern, s string) bool {
	parts := strings.Split(pattern, "*")
	if !strings.HasPrefix(s, parts[0]) {
		return false
	}
	s = s[len(parts[0]):]
	for i := 1; i < len(parts); i++ {
		p := parts[i]
		if i == len(parts)-1 {
			return strings.HasSuffix(s, p)
		}
		j := strings.Index(s, p)
		if j < 0 {
			return false
		}
		s = s[j+len(p):]
	}
	return true
}
