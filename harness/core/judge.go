package core

import (
	"bytes"
	"encoding/json"
	"fmt"
	"regexp"
	"sort"
	"strconv"
	"strings"
	"time"
)

// Event is one trace line.
type Event map[string]interface{}

// Trace is one recorded execution of the real code.
type Trace struct {
	Name   string
	Events []Event
	Meta   interface{} // how to reproduce (driver parameters)
	Writer []Event     // events recorded at the hooks of the background writer (WriterTrace.tla)
}

// Reject describes why TLC did not accept a trace.
type Reject struct {
	Trace    *Trace
	EventIdx int    // index (0-based) of the first event that could not be matched / made an invariant false
	Kind     string // "rejected" (no spec action explains the event), "invariant:<name>", or "dev:<name>" (recorded deviation)
	Prop     string // property a recorded deviation belongs to
	Event    Event
	Detail   string
}

var (
	reDev   = regexp.MustCompile(`<<(\d+), \\?"([^"\\]*)\\?", \\?"([^"\\]*)\\?">>`)
	reDiam  = regexp.MustCompile(`@D (\d+)`)
	reLineL = regexp.MustCompile(`(?m)^/\\ l = (\d+)`)
)

// JudgeOpts selects the trace specification.
type JudgeOpts struct {
	Module  string
	Config  string
	Timeout time.Duration
	HeapMB  int
	DFS     bool
	MaxRej  int // stop after this many rejected traces (default 5)
	Batch   int // max events per TLC run (default 40000)
}

// Judge validates the traces against a trace specification with TLC. Every
// event of an accepted trace is a step of the specification and every
// invariant of the cfg held in every state. Rejected traces are returned; the
// remaining traces are still validated.
func (r *Run) Judge(o JudgeOpts, traces []*Trace) []Reject {
	defer func() {
		// deterministic order
		r.mu.Lock()
		sort.SliceStable(r.devs, func(i, j int) bool {
			if r.devs[i].Trace.Name != r.devs[j].Trace.Name {
				return r.devs[i].Trace.Name < r.devs[j].Trace.Name
			}
			return r.devs[i].EventIdx < r.devs[j].EventIdx
		})
		r.mu.Unlock()
	}()
	if o.MaxRej == 0 {
		o.MaxRej = 5
	}
	if o.Batch == 0 {
		o.Batch = 40000
	}
	var rejects []Reject
	// batches
	for start := 0; start < len(traces); {
		n, end := 0, start
		for end < len(traces) && (n == 0 || n+len(traces[end].Events)+1 <= o.Batch) {
			n += len(traces[end].Events) + 1
			end++
		}
		batch := append([]*Trace(nil), traces[start:end]...)
		start = end
		for len(batch) > 0 {
			rej, broken := r.judgeOnce(o, batch)
			if broken != "" {
				r.Break("judge %s/%s: %s", o.Module, o.Config, broken)
				return rejects
			}
			if rej == nil {
				break
			}
			rejects = append(rejects, *rej)
			if len(rejects) >= o.MaxRej {
				return rejects
			}
			// the traces before the rejected one have been validated completely; continue
			// with the ones after it
			idx := 0
			for i, t := range batch {
				if t == rej.Trace {
					idx = i
				}
			}
			r.mu.Lock()
			r.Traces += idx
			for _, t := range batch[:idx] {
				r.Events += int64(len(t.Events))
			}
			r.mu.Unlock()
			batch = batch[idx+1:]
		}
	}
	return rejects
}

// Deviations recorded by the trace specification (property checks that failed while the
// trace itself could be followed) are appended to r.devs by judgeOnce.
func (r *Run) judgeOnce(o JudgeOpts, batch []*Trace) (*Reject, string) {
	var buf bytes.Buffer
	type loc struct {
		t   *Trace
		idx int
	}
	var locs []loc
	enc := json.NewEncoder(&buf)
	for _, t := range batch {
		enc.Encode(Event{"ev": "Reset"})
		locs = append(locs, loc{t, -1})
		for i, e := range t.Events {
			if err := enc.Encode(e); err != nil {
				return nil, fmt.Sprintf("cannot encode event: %v", err)
			}
			locs = append(locs, loc{t, i})
		}
	}
	// final line: lets the specification evaluate the state properties of the last state
	if len(batch) > 0 {
		enc.Encode(Event{"ev": "Note", "what": "end-of-batch"})
		last := batch[len(batch)-1]
		locs = append(locs, loc{last, len(last.Events) - 1})
	}
	total := len(locs)
	res, err := RunTLC(r.Scratch, TLCOpts{Module: o.Module, Config: o.Config, Workers: 1, HeapMB: o.HeapMB,
		Timeout: o.Timeout, DFS: o.DFS, Files: map[string][]byte{"trace.ndjson": buf.Bytes()}})
	if err != nil {
		return nil, err.Error()
	}
	defer res.Cleanup()
	if res.TimedOut {
		return nil, "TLC timed out"
	}
	diam := -1
	var devLines [][]string
	for _, p := range res.Prints {
		if m := reDiam.FindStringSubmatch(p); m != nil {
			diam, _ = strconv.Atoi(m[1])
		}
		if strings.HasPrefix(p, "@V ") {
			devLines = reDev.FindAllStringSubmatch(p, -1)
		}
	}
	if len(devLines) > 0 {
		// keep the first occurrence of every (trace, property, name)
		type key struct {
			t    *Trace
			p, n string
		}
		first := map[key]int{}
		for _, m := range devLines {
			line, _ := strconv.Atoi(m[1])
			if line < 1 || line > total {
				continue
			}
			k := key{locs[line-1].t, m[2], m[3]}
			if old, ok := first[k]; !ok || line < old {
				first[k] = line
			}
		}
		r.mu.Lock()
		for k, line := range first {
			lc := locs[line-1]
			rj := Reject{Trace: lc.t, EventIdx: lc.idx, Kind: "dev:" + k.n, Prop: k.p}
			if lc.idx >= 0 {
				rj.Event = lc.t.Events[lc.idx]
			}
			r.devs = append(r.devs, rj)
		}
		r.mu.Unlock()
	}
	mk := func(line int, kind, detail string) *Reject {
		// line: 1-based index of the offending trace line
		if line < 1 {
			line = 1
		}
		if line > total {
			line = total
		}
		lc := locs[line-1]
		rj := &Reject{Trace: lc.t, EventIdx: lc.idx, Kind: kind, Detail: detail}
		if lc.idx >= 0 {
			rj.Event = lc.t.Events[lc.idx]
		}
		return rj
	}
	if res.OK && diam-1 == total {
		r.mu.Lock()
		r.Traces += len(batch)
		r.Events += int64(total - len(batch) - 1)
		r.mu.Unlock()
		return nil, ""
	}
	if res.Violated != "" && res.Violated != "postcondition" {
		// invariant / property violated in the state reached after consuming line l-1
		line := 0
		ms := reLineL.FindAllStringSubmatch(res.ErrorTrace, -1)
		if len(ms) > 0 {
			l, _ := strconv.Atoi(ms[len(ms)-1][1])
			line = l - 1
		}
		if line == 0 {
			return nil, "cannot locate violated invariant in trace:\n" + res.Tail(30)
		}
		return mk(line, "invariant:"+res.Violated, lastState(res.ErrorTrace)), ""
	}
	if diam >= 1 && diam-1 < total {
		// the longest matched prefix has diam-1 lines: line number diam is the one nobody explains
		return mk(diam, "rejected", ""), ""
	}
	return nil, "unexpected TLC outcome:\n" + res.Tail(40)
}

func lastState(tr string) string {
	i := strings.LastIndex(tr, "State ")
	if i < 0 {
		return ""
	}
	s := tr[i:]
	if len(s) > 3000 {
		s = s[:3000]
	}
	return s
}

// Describe renders a rejection for humans.
func (rj Reject) Describe() string {
	ev, _ := json.Marshal(rj.Event)
	s := string(ev)
	if len(s) > 600 {
		s = s[:600] + "..."
	}
	return fmt.Sprintf("trace %q event #%d %s: %s", rj.Trace.Name, rj.EventIdx, rj.Kind, s)
}

// Serialize renders the trace as ndjson (replay artefact).
func (t *Trace) Serialize() []byte {
	var buf bytes.Buffer
	enc := json.NewEncoder(&buf)
	enc.Encode(Event{"ev": "Reset", "name": t.Name, "meta": t.Meta})
	for _, e := range t.Events {
		enc.Encode(e)
	}
	return buf.Bytes()
}
