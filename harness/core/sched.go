package core

import (
	"bytes"
	"runtime"
	"strconv"
	"sync"
	"sync/atomic"
	"time"

	txfile "github.com/elastic/go-txfile"
)

// Goroutine gate scheduler built on the blocking verif hook.

var procsByGID sync.Map // uint64 -> *Proc

// extra hook consumers (recorders) called for every event
var hookMu sync.RWMutex
var hookSinks []func(txfile.VerifEvent)

func goid() uint64 {
	var buf [64]byte
	n := runtime.Stack(buf[:], false)
	// "goroutine 123 [running]:..."
	b := buf[:n]
	b = b[len("goroutine "):]
	i := bytes.IndexByte(b, ' ')
	id, _ := strconv.ParseUint(string(b[:i]), 10, 64)
	return id
}

// InstallHook installs the global verif hook (idempotent).
var installOnce sync.Once

func InstallHook() {
	installOnce.Do(func() {
		txfile.VerifHook = func(ev txfile.VerifEvent) {
			hookMu.RLock()
			sinks := hookSinks
			hookMu.RUnlock()
			for _, s := range sinks {
				s(ev)
			}
			if v, ok := procsByGID.Load(goid()); ok {
				v.(*Proc).hook(ev)
			}
		}
	})
}

// AddHookSink registers a function that sees every hook event; returns a remover.
func AddHookSink(fn func(txfile.VerifEvent)) func() {
	hookMu.Lock()
	defer hookMu.Unlock()
	sinkSeq++
	id := sinkSeq
	sinkByID[id] = fn
	rebuildSinks()
	return func() {
		hookMu.Lock()
		defer hookMu.Unlock()
		delete(sinkByID, id)
		rebuildSinks()
	}
}

var sinkSeq int
var sinkByID = map[int]func(txfile.VerifEvent){}

func rebuildSinks() {
	n := make([]func(txfile.VerifEvent), 0, len(sinkByID))
	for _, f := range sinkByID {
		n = append(n, f)
	}
	hookSinks = n
}

// Proc is a goroutine under scheduler control.
type Proc struct {
	Name   string
	cmd    chan func()
	arrive chan string
	resume chan struct{}

	mu     sync.Mutex
	stops  map[string]bool
	OnPass func(point string, ev txfile.VerifEvent) // called for every hook point passed by this goroutine (in the goroutine)
	done   chan struct{}
}

// Spawn starts a controlled goroutine.
func Spawn(name string) *Proc {
	InstallHook()
	p := &Proc{Name: name, cmd: make(chan func()), arrive: make(chan string, 4), resume: make(chan struct{}), done: make(chan struct{})}
	ready := make(chan struct{})
	go func() {
		id := goid()
		procsByGID.Store(id, p)
		defer procsByGID.Delete(id)
		defer close(p.done)
		close(ready)
		for fn := range p.cmd {
			fn()
			p.arrive <- "ret"
		}
	}()
	<-ready
	return p
}

func (p *Proc) hook(ev txfile.VerifEvent) {
	if p.OnPass != nil {
		p.OnPass(ev.Point, ev)
	}
	p.mu.Lock()
	stop := p.stops[ev.Point]
	p.mu.Unlock()
	if !stop {
		return
	}
	p.arrive <- ev.Point
	<-p.resume
}

func (p *Proc) setStops(stops []string) {
	m := map[string]bool{}
	for _, s := range stops {
		m[s] = true
	}
	p.mu.Lock()
	p.stops = m
	p.mu.Unlock()
}

// Do starts fn in the goroutine; it will stop at the given hook points.
func (p *Proc) Do(fn func(), stops ...string) {
	p.setStops(stops)
	p.cmd <- fn
}

// Release lets the goroutine continue from its gate until the next stop point.
func (p *Proc) Release(stops ...string) {
	p.setStops(stops)
	p.resume <- struct{}{}
}

// Wait waits for the next arrival ("ret" when the command returned).
func (p *Proc) Wait(timeout time.Duration) (string, bool) {
	select {
	case s := <-p.arrive:
		return s, true
	case <-time.After(timeout):
		return "", false
	}
}

// Poll checks for an arrival without blocking.
func (p *Proc) Poll() (string, bool) {
	select {
	case s := <-p.arrive:
		return s, true
	default:
		return "", false
	}
}

// Stop ends the goroutine (it must be idle). Leaks the goroutine if it is stuck.
func (p *Proc) Stop() {
	defer func() { recover() }()
	close(p.cmd)
}

// Drain lets a goroutine that may be parked at a gate run to completion
// (best effort, asynchronously) and ends it.
func (p *Proc) Drain() {
	p.setStops(nil)
	go func() {
		defer func() { recover() }()
		close(p.cmd)
	}()
	go func() {
		for {
			select {
			case p.resume <- struct{}{}:
			case <-p.arrive:
			case <-p.done:
				return
			case <-time.After(2 * time.Second):
				return
			}
		}
	}()
}

// WatchRun waits for done. A run hangs if the progress counter does not move for idle (the
// total time does not matter: the machine may be busy); a run that keeps making progress
// beyond total is reported as timed out (a failure of the harness, never a violation).
func WatchRun(tick *int64, done <-chan struct{}, idle, total time.Duration) string {
	last, lastAt, start := int64(-1), time.Now(), time.Now()
	t := time.NewTicker(250 * time.Millisecond)
	defer t.Stop()
	for {
		select {
		case <-done:
			return ""
		case <-t.C:
			if p := atomic.LoadInt64(tick); p != last {
				last, lastAt = p, time.Now()
			}
			if time.Since(lastAt) > idle {
				return "hang"
			}
			if time.Since(start) > total {
				return "timeout"
			}
		}
	}
}
