// Package core holds the shared machinery of the conformance harness: TLC
// runner, trace recorder, evidence files, known findings.
package core

import (
	"bytes"
	"context"
	"fmt"
	"os"
	"os/exec"
	"path/filepath"
	"regexp"
	"strconv"
	"strings"
	"time"
)

const (
	tlaJar = "/opt/veriftools/tla/tla2tools.jar:/opt/veriftools/tla/CommunityModules-deps.jar"
)

// SpecDir is the directory holding the TLA+ modules and cfg/ files.
var SpecDir = "/verif/spec"

// TLCOpts configures one TLC run.
type TLCOpts struct {
	Module   string // module file name without .tla
	Config   string // cfg file name (in cfg/)
	Workers  int
	HeapMB   int
	Timeout  time.Duration
	Simulate string            // e.g. "num=100" (adds -simulate)
	Depth    int               // -depth for simulation
	Seed     int64             // -seed
	Coverage bool              // -coverage 1
	Files    map[string][]byte // extra files placed into the run directory (e.g. trace.ndjson)
	DFS      bool              // depth-first state queue (trace validation with branching)
	Extra    []string
}

// TLCResult is what a run produced.
type TLCResult struct {
	Generated  int64
	Distinct   int64
	Depth      int
	OK         bool   // "Model checking completed. No error has been found."
	Violated   string // name of violated invariant/property, or "postcondition"/"deadlock"/...
	TimedOut   bool
	ExitCode   int
	Output     string
	Wall       time.Duration
	Prints     []string         // lines printed by PrintT that start with "@P / "@
	ZeroCov    []string         // coverage lines with count 0 (only with Coverage)
	ActionCov  map[string]int64 // per action: distinct states found
	Dir        string
	ErrorTrace string
}

var (
	reStates = regexp.MustCompile(`(\d+) states generated, (\d+) distinct states found`)
	reDepth  = regexp.MustCompile(`The depth of the complete state graph search is (\d+)`)
	reInv    = regexp.MustCompile(`Invariant (\S+) is violated`)
	reProp   = regexp.MustCompile(`(?:Temporal properties were violated|Action property (\S+) is violated|property (\S+) (?:is|was) violated)`)
	reCov    = regexp.MustCompile(`^<(\w+) line (\d+), col \d+ to line \d+, col \d+ of module (\w+)>: (\d+):(\d+)`)
)

// RunTLC copies the spec directory into a scratch directory, runs TLC there and
// parses the outcome. The scratch directory is removed unless keep is set.
func RunTLC(scratch string, o TLCOpts) (*TLCResult, error) {
	dir, err := os.MkdirTemp(scratch, "tlc-"+o.Module+"-")
	if err != nil {
		return nil, err
	}
	ents, err := os.ReadDir(SpecDir)
	if err != nil {
		return nil, err
	}
	for _, e := range ents {
		if strings.HasSuffix(e.Name(), ".tla") {
			b, err := os.ReadFile(filepath.Join(SpecDir, e.Name()))
			if err != nil {
				return nil, err
			}
			if err := os.WriteFile(filepath.Join(dir, e.Name()), b, 0644); err != nil {
				return nil, err
			}
		}
	}
	b, err := os.ReadFile(filepath.Join(SpecDir, "cfg", o.Config))
	if err != nil {
		return nil, err
	}
	if err := os.WriteFile(filepath.Join(dir, o.Config), b, 0644); err != nil {
		return nil, err
	}
	for name, data := range o.Files {
		if err := os.WriteFile(filepath.Join(dir, name), data, 0644); err != nil {
			return nil, err
		}
	}
	if o.Workers <= 0 {
		o.Workers = 1
	}
	if o.HeapMB <= 0 {
		o.HeapMB = 4096
	}
	if o.Timeout <= 0 {
		o.Timeout = 10 * time.Minute
	}
	// (SANY and TLC unpack the standard modules into java.io.tmpdir: keep that inside the run directory)
	args := []string{"-XX:+UseParallelGC", fmt.Sprintf("-Xmx%dm", o.HeapMB), "-Xss64m", "-Djava.io.tmpdir=" + dir}
	if o.DFS {
		args = append(args, "-Dtlc2.tool.queue.IStateQueue=StateDeque")
	}
	args = append(args, "-cp", tlaJar, "tlc2.TLC",
		"-metadir", filepath.Join(dir, "meta"), "-workers", strconv.Itoa(o.Workers),
		"-config", o.Config)
	if o.Simulate != "" {
		args = append(args, "-simulate", o.Simulate)
		if o.Depth > 0 {
			args = append(args, "-depth", strconv.Itoa(o.Depth))
		}
	}
	if o.Seed != 0 {
		args = append(args, "-seed", strconv.FormatInt(o.Seed, 10))
	}
	if o.Coverage {
		args = append(args, "-coverage", "1")
	}
	args = append(args, o.Extra...)
	args = append(args, o.Module+".tla")

	ctx, cancel := context.WithTimeout(context.Background(), o.Timeout)
	defer cancel()
	cmd := exec.CommandContext(ctx, "java", args...)
	cmd.Dir = dir
	var out bytes.Buffer
	cmd.Stdout = &out
	cmd.Stderr = &out
	start := time.Now()
	runErr := cmd.Run()
	res := &TLCResult{Output: out.String(), Wall: time.Since(start), Dir: dir, ActionCov: map[string]int64{}}
	if ctx.Err() == context.DeadlineExceeded {
		res.TimedOut = true
	}
	if ee, ok := runErr.(*exec.ExitError); ok {
		res.ExitCode = ee.ExitCode()
	} else if runErr != nil {
		res.ExitCode = -1
	}
	res.parse()
	return res, nil
}

func (r *TLCResult) parse() {
	inTrace := false
	var trace []string
	for _, line := range strings.Split(r.Output, "\n") {
		if m := reStates.FindStringSubmatch(line); m != nil {
			r.Generated, _ = strconv.ParseInt(m[1], 10, 64)
			r.Distinct, _ = strconv.ParseInt(m[2], 10, 64)
		}
		if m := reDepth.FindStringSubmatch(line); m != nil {
			r.Depth, _ = strconv.Atoi(m[1])
		}
		if strings.Contains(line, "Model checking completed. No error has been found.") ||
			strings.Contains(line, "Finished computing") && false {
			r.OK = true
		}
		if m := reInv.FindStringSubmatch(line); m != nil && r.Violated == "" {
			r.Violated = m[1]
		}
		if strings.Contains(line, "Temporal properties were violated") && r.Violated == "" {
			r.Violated = "temporal"
		}
		if strings.Contains(line, "Action property") && strings.Contains(line, "violated") && r.Violated == "" {
			r.Violated = strings.TrimSpace(line)
		}
		if strings.Contains(line, "The postcondition") && strings.Contains(line, "false") && r.Violated == "" {
			r.Violated = "postcondition"
		}
		if strings.Contains(line, "Deadlock reached") && r.Violated == "" {
			r.Violated = "deadlock"
		}
		if strings.HasPrefix(line, "\"@") {
			s := strings.TrimSuffix(strings.TrimPrefix(line, "\""), "\"")
			r.Prints = append(r.Prints, s)
		}
		if strings.HasPrefix(line, "State ") || strings.HasPrefix(line, "Error: The behavior up to this point") {
			inTrace = true
		}
		if inTrace {
			trace = append(trace, line)
		}
		if m := reCov.FindStringSubmatch(line); m != nil {
			n, _ := strconv.ParseInt(m[5], 10, 64)
			d, _ := strconv.ParseInt(m[4], 10, 64)
			_ = d
			r.ActionCov[m[3]+"!"+m[1]] += n
			if n == 0 {
				r.ZeroCov = append(r.ZeroCov, m[3]+"!"+m[1])
			}
		}
	}
	if len(trace) > 400 {
		trace = trace[len(trace)-400:]
	}
	r.ErrorTrace = strings.Join(trace, "\n")
	if r.TimedOut {
		r.OK = false
	}
}

// Cleanup removes the run directory.
func (r *TLCResult) Cleanup() {
	if r != nil && r.Dir != "" {
		os.RemoveAll(r.Dir)
	}
}

// Tail returns the last n lines of the output.
func (r *TLCResult) Tail(n int) string {
	lines := strings.Split(strings.TrimRight(r.Output, "\n"), "\n")
	if len(lines) > n {
		lines = lines[len(lines)-n:]
	}
	return strings.Join(lines, "\n")
}

// RunApalache runs one bounded check of apalache-mc on a module of the spec directory and
// reports whether the outcome was NoError.
func RunApalache(scratch, module string, args []string, timeout time.Duration) (ok bool, out string, err error) {
	dir, err := os.MkdirTemp(scratch, "apalache-"+module+"-")
	if err != nil {
		return false, "", err
	}
	defer os.RemoveAll(dir)
	ents, err := os.ReadDir(SpecDir)
	if err != nil {
		return false, "", err
	}
	for _, e := range ents {
		if strings.HasSuffix(e.Name(), ".tla") {
			b, err := os.ReadFile(filepath.Join(SpecDir, e.Name()))
			if err != nil {
				return false, "", err
			}
			if err := os.WriteFile(filepath.Join(dir, e.Name()), b, 0644); err != nil {
				return false, "", err
			}
		}
	}
	ctx, cancel := context.WithTimeout(context.Background(), timeout)
	defer cancel()
	full := append([]string{"check", "--out-dir=" + filepath.Join(dir, "out")}, args...)
	full = append(full, module+".tla")
	cmd := exec.CommandContext(ctx, "apalache-mc", full...)
	cmd.Dir = dir
	var buf bytes.Buffer
	cmd.Stdout = &buf
	cmd.Stderr = &buf
	cmd.Run()
	out = buf.String()
	return strings.Contains(out, "The outcome is: NoError"), out, nil
}
