// Package fenv drives a real txfile.File on a simulated disk and records the
// trace events that TxTrace.tla judges. It contains the abstraction function
// from real bytes / real in-memory state to the specification's values
// (independent decoders for headers, list pages and stamped data pages).
package fenv

import (
	"encoding/binary"
	"hash/fnv"
)

// ---------------------------------------------------------------------------
// data pages: every quarter of a page is stamped with (page id, quarter, version)

const stampMagic = 0x46565854 // "TXVF"

func mix(id uint64, q, v uint32, i int) uint64 {
	x := id*0x9E3779B97F4A7C15 ^ uint64(q)<<56 ^ uint64(v)<<20 ^ uint64(i)
	x ^= x >> 31
	x *= 0xBF58476D1CE4E5B9
	x ^= x >> 29
	return x
}

// StampQuarter fills buf (one quarter of a page) for page id, quarter q, version v.
func StampQuarter(buf []byte, id uint64, q int, v int) {
	binary.LittleEndian.PutUint32(buf[0:], stampMagic)
	binary.LittleEndian.PutUint32(buf[4:], uint32(id))
	binary.LittleEndian.PutUint32(buf[8:], uint32(v))
	binary.LittleEndian.PutUint32(buf[12:], uint32(q))
	for i := 16; i+8 <= len(buf); i += 8 {
		binary.LittleEndian.PutUint64(buf[i:], mix(id, uint32(q), uint32(v), i))
	}
}

// quarter codes in traces
const (
	QZero    = 0  // all bytes zero
	QGarbage = -2 // anything else
	QPoison  = -3 // unmapped / beyond EOF
	QForeign = -4 // a well formed stamp of another page
)

// DecodeQuarter returns the version stamped into the quarter. If wantID >= 0
// the stamp must belong to page wantID.
func DecodeQuarter(buf []byte, q int, wantID int64) int {
	allZero, allPoison := true, true
	for _, b := range buf {
		if b != 0 {
			allZero = false
		}
		if b != 0xDB {
			allPoison = false
		}
	}
	if allZero {
		return QZero
	}
	if allPoison {
		return QPoison
	}
	if binary.LittleEndian.Uint32(buf[0:]) != stampMagic {
		return QGarbage
	}
	id := uint64(binary.LittleEndian.Uint32(buf[4:]))
	v := binary.LittleEndian.Uint32(buf[8:])
	sq := binary.LittleEndian.Uint32(buf[12:])
	if int(sq) != q {
		return QGarbage
	}
	for i := 16; i+8 <= len(buf); i += 8 {
		if binary.LittleEndian.Uint64(buf[i:]) != mix(id, sq, v, i) {
			return QGarbage
		}
	}
	if wantID >= 0 && uint64(wantID) != id {
		return QForeign
	}
	return int(v)
}

// DecodePage decodes the four quarters of a data page.
func DecodePage(buf []byte, wantID int64) [4]int {
	var out [4]int
	n := len(buf) / 4
	for q := 0; q < 4; q++ {
		out[q] = DecodeQuarter(buf[q*n:(q+1)*n], q, wantID)
	}
	return out
}

// ---------------------------------------------------------------------------
// file header (layout.go: metaPage, 84 bytes, little endian, packed)

const (
	hdrMagic   = 0xBEA77AEB
	hdrVersion = 1
	HdrSize    = 84
)

// Header is the decoded file header.
type Header struct {
	OK        bool
	PageSize  uint32
	MaxSize   uint64
	Flags     uint32
	Root      uint64
	TxID      uint64
	Freelist  uint64
	WAL       uint64
	DataEnd   uint64
	MetaEnd   uint64
	MetaTotal uint64
}

// DecodeHeader parses and validates a header with an independent FNV-1a.
func DecodeHeader(b []byte) Header {
	var h Header
	if len(b) < HdrSize {
		return h
	}
	le := binary.LittleEndian
	h.PageSize = le.Uint32(b[8:])
	h.MaxSize = le.Uint64(b[12:])
	h.Flags = le.Uint32(b[20:])
	h.Root = le.Uint64(b[24:])
	h.TxID = le.Uint64(b[32:])
	h.Freelist = le.Uint64(b[40:])
	h.WAL = le.Uint64(b[48:])
	h.DataEnd = le.Uint64(b[56:])
	h.MetaEnd = le.Uint64(b[64:])
	h.MetaTotal = le.Uint64(b[72:])
	sum := fnv.New32a()
	sum.Write(b[:80])
	h.OK = le.Uint32(b[0:]) == hdrMagic && le.Uint32(b[4:]) == hdrVersion && le.Uint32(b[80:]) == sum.Sum32()
	return h
}

// EncodeHeader builds header bytes with a correct checksum.
func EncodeHeader(h Header) []byte {
	b := make([]byte, HdrSize)
	le := binary.LittleEndian
	le.PutUint32(b[0:], hdrMagic)
	le.PutUint32(b[4:], hdrVersion)
	le.PutUint32(b[8:], h.PageSize)
	le.PutUint64(b[12:], h.MaxSize)
	le.PutUint32(b[20:], h.Flags)
	le.PutUint64(b[24:], h.Root)
	le.PutUint64(b[32:], h.TxID)
	le.PutUint64(b[40:], h.Freelist)
	le.PutUint64(b[48:], h.WAL)
	le.PutUint64(b[56:], h.DataEnd)
	le.PutUint64(b[64:], h.MetaEnd)
	le.PutUint64(b[72:], h.MetaTotal)
	sum := fnv.New32a()
	sum.Write(b[:80])
	le.PutUint32(b[80:], sum.Sum32())
	return b
}

// ---------------------------------------------------------------------------
// list pages (freelist / wal mapping): header next u64, count u32

// Region is a run of pages.
type Region struct {
	ID    uint64
	Count uint32
}

// DecodeFreePage decodes one freelist page.
func DecodeFreePage(b []byte) (next uint64, data, meta []Region, ok bool) {
	if len(b) < 12 {
		return 0, nil, nil, false
	}
	le := binary.LittleEndian
	next = le.Uint64(b[0:])
	n := le.Uint32(b[8:])
	p := b[12:]
	for i := uint32(0); i < n; i++ {
		if len(p) < 8 {
			return next, data, meta, false
		}
		v := le.Uint64(p)
		p = p[8:]
		id := (v << 9) >> 9
		isMeta := v>>63 == 1
		cnt := uint32(v>>55) & 0xFF
		switch cnt {
		case 0:
			cnt = 1
		case 255:
			if len(p) < 4 {
				return next, data, meta, false
			}
			cnt = le.Uint32(p)
			p = p[4:]
		}
		r := Region{ID: id, Count: cnt}
		if isMeta {
			meta = append(meta, r)
		} else {
			data = append(data, r)
		}
	}
	return next, data, meta, true
}

// DecodeWALPage decodes one page of the overwrite mapping.
func DecodeWALPage(b []byte) (next uint64, entries [][2]uint64, ok bool) {
	if len(b) < 12 {
		return 0, nil, false
	}
	le := binary.LittleEndian
	next = le.Uint64(b[0:])
	n := le.Uint32(b[8:])
	p := b[12:]
	for i := uint32(0); i < n; i++ {
		if len(p) < 14 {
			return next, entries, false
		}
		var k, v [8]byte
		copy(k[:7], p[0:7])
		copy(v[:7], p[7:14])
		p = p[14:]
		entries = append(entries, [2]uint64{le.Uint64(k[:]), le.Uint64(v[:])})
	}
	return next, entries, true
}
