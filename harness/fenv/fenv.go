package fenv

import (
	"fmt"
	"runtime"
	"sort"
	"sync"
	"sync/atomic"
	"time"

	txfile "github.com/elastic/go-txfile"
	"github.com/elastic/go-txfile/txerr"

	"verif/core"
	"verif/simdisk"
)

// Env is one real file on one simulated disk plus the recorder of its trace.
type Env struct {
	Tick *int64 // progress counter of the driver's watchdog (optional)
	Disk *simdisk.Disk
	F    *txfile.File
	PS   int
	Opts txfile.Options

	mu     sync.Mutex
	events []core.Event
	Record bool // record events (default true)
	IO     bool // record I/O events (W / S)

	ver      int
	kinds    map[uint64]string // page kind at its last scheduling
	phase    string
	writerID interface{}
	unsink   func()

	Tx        *txfile.Tx
	hdrIssued bool

	EverOverflow  bool // some transaction enabled the overflow area on this file
	ExtentLimit   uint // bound of the file extent after a max size change (0: the configured max size)
	opening       bool // a file is being opened (its internal transactions are observed)
	openGID       uint64
	switched      bool // the running commit passed commit/switched
	injAtBegin    int  // injected failures at the begin of the running transaction
	inCommit      bool
	wmu           sync.Mutex
	wev           []core.Event         // writer-level trace (WriterTrace.tla)
	wtx           int                  // number of the current write transaction
	winj          int                  // injected failures seen at the writer's previous step
	kindByContent map[[2]uint64]string // (page id, content hash) -> kind of a scheduled write

	// bookkeeping of the driver (to generate valid operations; never used for verdicts)
	Live    map[uint64]bool // pages live in the committed state
	TxNew   map[uint64]bool
	TxFreed map[uint64]bool
	TxDirty map[uint64]bool
	TxFlush map[uint64]bool
	Root    uint64
	TxRoot  uint64

	// OnPoint is called (in the goroutine hitting the hook) for every hook point of this file.
	OnPoint func(point string)
}

// ErrKind returns a short name for the error kind ("" for nil).
func ErrKind(err error) string {
	if err == nil {
		return ""
	}
	kinds := map[string]error{
		"TxFinished": txfile.TxFinished, "TxReadOnly": txfile.TxReadOnly, "InvalidOp": txfile.InvalidOp,
		"OutOfMemory": txfile.OutOfMemory, "InvalidPageID": txfile.InvalidPageID, "InvalidParam": txfile.InvalidParam,
		"TxCommitFail": txfile.TxCommitFail, "TxRollbackFail": txfile.TxRollbackFail, "TxFailed": txfile.TxFailed,
		"InvalidMetaPage": txfile.InvalidMetaPage, "InitFailed": txfile.InitFailed, "InvalidConfig": txfile.InvalidConfig,
		"NoDiskSpace": txfile.NoDiskSpace, "FileCreationFailed": txfile.FileCreationFailed, "InvalidFileSize": txfile.InvalidFileSize,
		"LockFailed": txfile.LockFailed, "InternalError": txfile.InternalError,
	}
	var names []string
	for n, k := range kinds {
		if txerr.Is(k, err) {
			names = append(names, n)
		}
	}
	if len(names) == 0 {
		return "error"
	}
	sort.Strings(names)
	s := names[0]
	for _, n := range names[1:] {
		s += "+" + n
	}
	return s
}

// New creates an environment with an empty disk.
func New(name string, opts txfile.Options) *Env {
	core.InstallHook()
	e := &Env{Disk: simdisk.New(name), Opts: opts, PS: int(opts.PageSize), Record: true, IO: true,
		kinds: map[uint64]string{}, Live: map[uint64]bool{}}
	e.Disk.OnOp = e.OnDiskOp
	return e
}

// Events returns the recorded events.
func (e *Env) Events() []core.Event {
	e.mu.Lock()
	defer e.mu.Unlock()
	return append([]core.Event(nil), e.events...)
}

// Emit appends an event.
func (e *Env) Emit(ev core.Event) {
	if e.Tick != nil {
		atomic.AddInt64(e.Tick, 1)
	}
	if !e.Record {
		return
	}
	e.mu.Lock()
	e.events = append(e.events, ev)
	e.mu.Unlock()
}

// NextVer returns a fresh content version.
func (e *Env) NextVer() int {
	e.ver++
	return e.ver
}

// LastVer returns the content version used by the last Set.
func (e *Env) LastVer() int { return e.ver }

// regs renders region lists. Values that can only come from a garbage state (the state after
// a known finding, e.g. a header read through a dead mapping) are clamped so that the judge
// can still build the page sets; such a state deviates from the model anyway.
func regs(rs []txfile.VerifRegion) [][2]uint64 {
	out := make([][2]uint64, 0, len(rs))
	for i, r := range rs {
		id, n := r.ID, uint64(r.Count)
		if id > 1<<24 {
			id = 1 << 24
		}
		if n > 4096 {
			n = 4096
		}
		if i >= 512 {
			break
		}
		out = append(out, [2]uint64{id, n})
	}
	return out
}

func clampU(v uint64) uint64 {
	if v > 1<<30 {
		return 1 << 30
	}
	return v
}

// StOf converts a file snapshot into the trace representation.
func StOf(st txfile.VerifState) map[string]interface{} {
	wal := st.WAL
	if wal == nil {
		wal = [][2]uint64{}
	}
	return map[string]interface{}{
		"slot": st.MetaActive, "txid": clampU(st.TxID), "root": clampU(st.Root), "hfl": clampU(st.HdrFL), "hwal": clampU(st.HdrWAL),
		"maxb": st.MaxSize, "hde": clampU(st.HdrDataEnd), "hme": clampU(st.HdrMetaEnd), "hmt": clampU(st.HdrMetaTot), "hmax": clampU(st.HdrMaxSize / uint64(max1(st.PageSize))),
		"de": st.DataEnd, "me": st.MetaEnd, "mt": st.MetaTotal, "maxp": st.MaxPages,
		"dfree": regs(st.DataFree), "mfree": regs(st.MetaFree), "flp": regs(st.FreelistPages), "walpg": regs(st.WALPages),
		"wal": wal, "sh": st.Shared, "pe": st.Pending, "res": st.Reserved,
		"mapped": st.Mapped / int(max1(st.PageSize)), "size": st.Size / int64(max1(st.PageSize)),
		"sd": st.Stats.DataAllocated, "sm": st.Stats.MetaArea, "smu": st.Stats.MetaAllocated,
	}
}

func max1(v uint) uint {
	if v == 0 {
		return 1
	}
	return v
}

// St takes the snapshot of the file (caller must own the file state).
func (e *Env) St() map[string]interface{} {
	st := StOf(e.F.VerifSnapshot(true))
	vol, _ := e.Disk.Snapshot()
	st["fsz"] = len(vol) // bytes
	if e.ExtentLimit > 0 && st["maxb"].(uint) > 0 && e.ExtentLimit > st["maxb"].(uint) {
		// after a shrink the file may stay as large as it was: the bound is the larger of the
		// extent at that time and the limit
		st["maxb"] = e.ExtentLimit
	}
	st["ovf"] = e.EverOverflow
	return st
}

func max1i(v int) int {
	if v == 0 {
		return 1
	}
	return v
}

// Lk takes the lock projection only.
func (e *Env) Lk() map[string]interface{} {
	sh, pe := e.F.VerifLockState()
	return map[string]interface{}{"sh": sh, "pe": pe, "res": false}
}

// ---------------------------------------------------------------------------
// hooks and I/O

func (e *Env) sink(ev txfile.VerifEvent) {
	if e.opening && e.F == nil && ev.File != nil && goidOf() == e.openGID {
		// first event of the file that is being opened by this environment
		e.F = ev.File
		e.setWriter(ev.File.VerifWriterID())
	}
	if ev.File != nil && ev.File != e.F {
		return
	}
	if ev.File == nil && ev.Writer != e.writerID {
		return
	}
	e.writerTrace(ev)
	switch ev.Point {
	case "writer/schedule":
		k := "D"
		switch {
		case ev.ID < 2:
			k = "H"
		case e.phase == "wal":
			k = "W"
		case e.phase == "alloc":
			k = "F"
		}
		e.mu.Lock()
		e.kinds[uint64(ev.ID)] = k
		// the write happens later, on the writer's goroutine: by then the same page id may have
		// been scheduled again with another kind - remember the kind by content as well
		if len(ev.Buf) > 0 {
			if e.kindByContent == nil {
				e.kindByContent = map[[2]uint64]string{}
			}
			e.kindByContent[[2]uint64{uint64(ev.ID), contentHash(ev.Buf)}] = k
		}
		e.mu.Unlock()
	case "commit/pending":
		e.phase, e.inCommit, e.hdrIssued = "data", true, false
		if !e.opening {
			e.Emit(core.Event{"ev": "CommitBegin"})
		}
	case "commit/serialize-wal":
		e.phase = "wal"
	case "commit/serialize-alloc":
		e.phase = "alloc"
	case "commit/serialized":
		e.phase = "data"
	case "commit/header-requested":
		e.hdrIssued = true
	case "commit/switched":
		if !e.opening {
			e.Emit(core.Event{"ev": "CommitSwitched", "st": e.St()})
			e.applyTxToLive()
		}
	}
	if e.OnPoint != nil && ev.File != nil {
		e.OnPoint(ev.Point)
	}
}

// writerTrace records the calls and steps of the background writer for WriterTrace.tla.
func (e *Env) writerTrace(ev txfile.VerifEvent) {
	if !e.Record {
		return
	}
	inj := func() bool {
		n := e.Disk.Injected()
		d := n > e.winj
		e.winj = n
		return d
	}
	var out core.Event
	switch ev.Point {
	case "tx/begin":
		if ev.Tx != nil && !ev.Tx.Readonly() {
			e.wmu.Lock()
			e.wtx++
			e.wmu.Unlock()
		}
		return
	case "writer/schedule":
		out = core.Event{"ev": "Sched", "pg": uint64(ev.ID), "h": contentHash(ev.Buf) % 1000000007}
	case "writer/sync":
		out = core.Event{"ev": "SyncReq", "reset": ev.Flags&1 != 0}
	case "writer/written":
		out = core.Event{"ev": "Written", "pg": uint64(ev.ID), "h": contentHash(ev.Buf) % 1000000007, "err": ev.Flags&1 != 0}
	case "writer/synced":
		out = core.Event{"ev": "Synced", "err": ev.Flags&1 != 0, "reset": ev.Flags&2 != 0}
	default:
		return
	}
	e.wmu.Lock()
	switch ev.Point {
	case "writer/schedule", "writer/sync":
		out["tx"] = e.wtx
	default:
		out["inj"] = inj()
	}
	e.wev = append(e.wev, out)
	e.wmu.Unlock()
}

// setWriter adopts the writer of a newly opened file: what the previous writer had queued
// is gone with it (Close stops the writer without draining writes nobody waits for).
func (e *Env) setWriter(id interface{}) {
	if id == e.writerID {
		return
	}
	e.writerID = id
	e.wmu.Lock()
	if len(e.wev) > 0 {
		e.wev = append(e.wev, core.Event{"ev": "Reset"})
	}
	e.wmu.Unlock()
}

// closing marks the point from which the writer is being stopped and the file closed under it.
func (e *Env) closing() {
	e.wmu.Lock()
	if len(e.wev) > 0 {
		e.wev = append(e.wev, core.Event{"ev": "Closing"})
	}
	e.wmu.Unlock()
}

// WriterEvents returns the recorded writer-level events.
func (e *Env) WriterEvents() []core.Event {
	e.wmu.Lock()
	defer e.wmu.Unlock()
	return append([]core.Event(nil), e.wev...)
}

func (e *Env) contentOf(pg uint64, b []byte, kind string, complete bool) map[string]interface{} {
	if !complete {
		if kind == "H" {
			return map[string]interface{}{"k": "X"}
		}
		return map[string]interface{}{"k": "G"}
	}
	switch kind {
	case "H":
		h := DecodeHeader(b)
		ps := uint64(h.PageSize)
		if ps == 0 {
			ps = 1
		}
		return map[string]interface{}{"k": "H", "ok": h.OK, "txid": h.TxID, "root": h.Root, "fl": h.Freelist, "wal": h.WAL,
			"de": h.DataEnd, "me": h.MetaEnd, "mt": h.MetaTotal, "max": h.MaxSize / ps}
	case "F":
		next, d, m, ok := DecodeFreePage(b)
		for _, r := range append(append([]Region{}, d...), m...) {
			if r.ID > 1<<24 || r.Count > 1<<20 { // not a list page the store could have written
				ok = false
			}
		}
		if !ok {
			return map[string]interface{}{"k": "G"}
		}
		return map[string]interface{}{"k": "F", "next": next, "d": regList(d), "m": regList(m)}
	case "W":
		next, ents, ok := DecodeWALPage(b)
		if !ok {
			return map[string]interface{}{"k": "G"}
		}
		if ents == nil {
			ents = [][2]uint64{}
		}
		return map[string]interface{}{"k": "W", "next": next, "map": ents}
	}
	if len(b) != e.PS {
		return map[string]interface{}{"k": "G"}
	}
	q := DecodePage(b, -1)
	return map[string]interface{}{"k": "D", "q": q}
}

func contentHash(b []byte) uint64 {
	h := uint64(14695981039346656037)
	for _, c := range b {
		h = (h ^ uint64(c)) * 1099511628211
	}
	return h
}

func regList(rs []Region) [][2]uint64 {
	out := make([][2]uint64, 0, len(rs))
	for _, r := range rs {
		out = append(out, [2]uint64{r.ID, uint64(r.Count)})
	}
	return out
}

// OnDiskOp records the I/O of the simulated disk.
func (e *Env) OnDiskOp(op *simdisk.Op) {
	if !e.Record || !e.IO || e.PS == 0 {
		return
	}
	switch op.Kind {
	case simdisk.OpWrite:
		if len(op.Data) == 0 {
			e.Emit(core.Event{"ev": "Note", "what": "write-failed", "pg": op.Off / int64(e.PS)})
			return
		}
		// split multi page writes (file creation) into pages
		for off := 0; off < len(op.Data); off += e.PS {
			end := off + e.PS
			if end > len(op.Data) {
				end = len(op.Data)
			}
			pg := uint64(op.Off+int64(off)) / uint64(e.PS)
			chunk := op.Data[off:end]
			e.mu.Lock()
			kind := e.kinds[pg]
			if k, ok := e.kindByContent[[2]uint64{pg, contentHash(chunk)}]; ok && end-off == e.PS {
				kind = k
			}
			e.mu.Unlock()
			if pg < 2 {
				kind = "H"
			}
			if kind == "" {
				kind = "D"
			}
			complete := !op.Err || end-off == e.PS
			if kind == "H" {
				complete = len(chunk) >= HdrSize
			}
			e.Emit(core.Event{"ev": "W", "pg": pg, "c": e.contentOf(pg, chunk, kind, complete), "io": op.Idx})
		}
	case simdisk.OpSync:
		if op.Err {
			e.Emit(core.Event{"ev": "Note", "what": "sync-failed"})
		} else {
			e.Emit(core.Event{"ev": "S", "io": op.Idx})
		}
	case simdisk.OpTruncate:
		e.Emit(core.Event{"ev": "Note", "what": "truncate", "n": op.Size / int64(e.PS), "err": op.Err, "io": op.Idx})
	}
}

// DiskImage decodes the durable content of the whole disk for an Adopt event:
// headers, the list pages reachable from either header, data pages otherwise.
func (e *Env) DiskImage(img []byte) [][2]interface{} {
	ps := e.PS
	n := len(img) / ps
	kinds := map[uint64]string{0: "H", 1: "H"}
	// only the chains of the header that wins describe the current state; a page of the
	// other header's chains may have been recycled as a data page since
	var hs [2]Header
	for s := 0; s < 2 && (s+1)*ps <= len(img); s++ {
		hs[s] = DecodeHeader(img[s*ps:])
	}
	win := 0
	if !hs[0].OK || (hs[1].OK && int64(hs[1].TxID-hs[0].TxID) > 0) {
		win = 1
	}
	for s := win; s == win; s++ {
		h := hs[s]
		if !h.OK {
			continue
		}
		for id, fuel := h.Freelist, 0; id != 0 && int(id) < n && fuel < 4096; fuel++ {
			kinds[id] = "F"
			next, _, _, _ := DecodeFreePage(img[int(id)*ps : (int(id)+1)*ps])
			id = next
		}
		for id, fuel := h.WAL, 0; id != 0 && int(id) < n && fuel < 4096; fuel++ {
			kinds[id] = "W"
			next, _, _ := DecodeWALPage(img[int(id)*ps : (int(id)+1)*ps])
			id = next
		}
	}
	var out [][2]interface{}
	for pg := 0; pg < n; pg++ {
		k := kinds[uint64(pg)]
		if k == "" {
			k = "D"
		}
		b := img[pg*ps : (pg+1)*ps]
		if k == "H" {
			b = b[:HdrSize]
		}
		out = append(out, [2]interface{}{pg, e.contentOf(uint64(pg), b, k, true)})
		e.mu.Lock()
		e.kinds[uint64(pg)] = k
		e.mu.Unlock()
	}
	return out
}

// ---------------------------------------------------------------------------
// operations (each drives the real code and records one event)

// Open creates or opens the file and records an Adopt event with the given
// logical model (pages: id -> quarters).
func (e *Env) Open(model map[uint64][4]int, root uint64) error {
	e.Disk.Reopen()
	e.unsinkOld()
	e.F = nil
	rec := e.Record
	e.Record = false // creation / open I/O precedes the Adopt event
	f, err := txfile.VerifOpenWith(e.Disk, e.Opts)
	e.Record = rec
	if err != nil {
		return err
	}
	e.F = f
	e.PS = f.PageSize()
	e.setWriter(f.VerifWriterID())
	e.unsink = core.AddHookSink(e.sink)
	_, dur := e.Disk.Snapshot()
	var pages [][2]interface{}
	ids := make([]uint64, 0, len(model))
	for id := range model {
		ids = append(ids, id)
	}
	sort.Slice(ids, func(i, j int) bool { return ids[i] < ids[j] })
	for _, id := range ids {
		pages = append(pages, [2]interface{}{id, model[id]})
	}
	if pages == nil {
		pages = [][2]interface{}{}
	}
	e.Live = map[uint64]bool{}
	for id := range model {
		e.Live[id] = true
	}
	e.Root = root
	e.Emit(core.Event{"ev": "Adopt", "root": root, "pages": pages, "st": e.St(), "disk": e.DiskImage(dur), "io": e.Disk.NOps()})
	return nil
}

func (e *Env) unsinkOld() {
	if e.unsink != nil {
		e.unsink()
		e.unsink = nil
	}
}

// Close closes the file.
func (e *Env) Close() error {
	if e.F == nil {
		return nil
	}
	e.closing()
	err := e.F.Close()
	e.F = nil
	e.unsinkOld()
	return err
}

// Reopen closes and reopens the file (C10): the projection must be unchanged.
func (e *Env) Reopen(opts txfile.Options) error {
	e.closing()
	if err := e.F.Close(); err != nil {
		return err
	}
	e.unsinkOld()
	e.Disk.Reopen()
	f, err := txfile.VerifOpenWith(e.Disk, opts)
	if err != nil {
		e.Emit(core.Event{"ev": "ReopenFailed", "err": ErrKind(err), "msg": fmt.Sprintf("%+v", err)})
		return err
	}
	e.F = f
	e.setWriter(f.VerifWriterID())
	e.unsink = core.AddHookSink(e.sink)
	e.Emit(core.Event{"ev": "Reopen", "st": e.St()})
	return e.probeIdle()
}

// Begin starts the write transaction.
func (e *Env) Begin(opts txfile.TxOptions) error {
	tx, err := e.F.BeginWith(opts)
	if err != nil {
		e.Emit(core.Event{"ev": "BeginW", "err": ErrKind(err)})
		return err
	}
	e.Tx = tx
	e.injAtBegin = e.Disk.Injected()
	if opts.EnableOverflowArea {
		e.EverOverflow = true
	}
	e.TxNew, e.TxFreed, e.TxDirty, e.TxFlush = map[uint64]bool{}, map[uint64]bool{}, map[uint64]bool{}, map[uint64]bool{}
	e.TxRoot = e.Root
	e.Emit(core.Event{"ev": "BeginW", "err": "", "root": uint64(tx.Root()), "overflow": opts.EnableOverflowArea, "st": e.St()})
	return nil
}

// Alloc allocates n pages.
func (e *Env) Alloc(n int) ([]uint64, error) {
	pgs, err := e.Tx.AllocN(n)
	ids := make([]uint64, 0, len(pgs))
	for _, p := range pgs {
		ids = append(ids, uint64(p.ID()))
	}
	if err == nil {
		for _, id := range ids {
			e.TxNew[id] = true
			delete(e.TxFreed, id)
		}
	}
	e.Emit(core.Event{"ev": "Alloc", "n": n, "ids": ids, "err": ErrKind(err), "st": e.St()})
	return ids, err
}

// Set writes the first nq quarters of the page with a fresh version (SetBytes).
func (e *Env) Set(id uint64, nq int) error {
	v := e.NextVer()
	pg, err := e.Tx.Page(txfile.PageID(id))
	if err == nil {
		qlen := e.PS / 4
		buf := make([]byte, nq*qlen)
		for q := 0; q < nq; q++ {
			StampQuarter(buf[q*qlen:(q+1)*qlen], id, q, v)
		}
		err = pg.SetBytes(buf)
	}
	if err == nil {
		e.TxDirty[id] = true
	}
	e.Emit(core.Event{"ev": "Set", "id": id, "nq": nq, "v": v, "err": ErrKind(err)})
	return err
}

// LoadSet loads the page, overwrites quarter k (1..4) in place and marks it dirty.
func (e *Env) LoadSet(id uint64, k int) error {
	v := e.NextVer()
	pg, err := e.Tx.Page(txfile.PageID(id))
	if err == nil {
		err = pg.Load()
	}
	if err == nil {
		var b []byte
		b, err = pg.Bytes()
		if err == nil {
			qlen := e.PS / 4
			StampQuarter(b[(k-1)*qlen:k*qlen], id, k-1, v)
			err = pg.MarkDirty()
		}
	}
	if err == nil {
		e.TxDirty[id] = true
	}
	e.Emit(core.Event{"ev": "LoadSet", "id": id, "k": k, "v": v, "err": ErrKind(err)})
	return err
}

// Free frees the page.
func (e *Env) Free(id uint64) error {
	pg, err := e.Tx.Page(txfile.PageID(id))
	if err == nil {
		err = pg.Free()
	}
	if err == nil {
		e.TxFreed[id] = true
	}
	e.Emit(core.Event{"ev": "Free", "id": id, "err": ErrKind(err), "st": e.St()})
	return err
}

// SetRoot sets the root.
func (e *Env) SetRoot(id uint64) {
	e.Tx.SetRoot(txfile.PageID(id))
	e.TxRoot = id
	e.Emit(core.Event{"ev": "SetRoot", "id": id})
}

// Flush flushes all dirty pages.
func (e *Env) Flush() error {
	err := e.Tx.Flush()
	if err == nil {
		for id := range e.TxDirty {
			e.TxFlush[id] = true
		}
	}
	e.Emit(core.Event{"ev": "Flush", "err": ErrKind(err), "st": e.St()})
	return err
}

// Checkpoint runs CheckpointWAL.
func (e *Env) Checkpoint() error {
	err := e.Tx.CheckpointWAL()
	e.Emit(core.Event{"ev": "Checkpoint", "err": ErrKind(err), "st": e.St()})
	return err
}

// ReadPage reads and decodes a page through tx.
func ReadPage(tx *txfile.Tx, id uint64) ([4]int, error) {
	pg, err := tx.Page(txfile.PageID(id))
	if err != nil {
		return [4]int{}, err
	}
	b, err := pg.Bytes()
	if err != nil {
		return [4]int{}, err
	}
	return DecodePage(b, int64(id)), nil
}

// ReadW reads a page inside the write transaction.
func (e *Env) ReadW(id uint64) {
	q, err := ReadPage(e.Tx, id)
	e.Emit(core.Event{"ev": "ReadW", "id": id, "q": q, "err": ErrKind(err)})
}

// applyTxToLive updates the driver's view of the committed pages (from the
// commit/switched hook on: readers that begin now see the new state).
func (e *Env) applyTxToLive() {
	live := map[uint64]bool{}
	for id := range e.Live {
		if !e.TxFreed[id] {
			live[id] = true
		}
	}
	for id := range e.TxNew {
		if !e.TxFreed[id] {
			live[id] = true
		}
	}
	e.mu.Lock()
	e.Live = live
	e.mu.Unlock()
	e.Root = e.TxRoot
	e.switched = true
}

func (e *Env) endTx(committed bool) {
	if committed && !e.switched {
		e.applyTxToLive()
	}
	e.switched = false
	e.Tx, e.TxNew, e.TxFreed, e.TxDirty, e.TxFlush = nil, nil, nil, nil, nil
	e.inCommit = false
	e.phase = "data"
}

// Commit commits the write transaction.
func (e *Env) Commit() error {
	err := e.Tx.Commit()
	e.Emit(core.Event{"ev": "Commit", "err": ErrKind(err), "hdrIssued": e.hdrIssued, "faulty": e.Disk.Injected() > e.injAtBegin, "oom": err != nil && (txerr.Is(txfile.OutOfMemory, err) || txerr.Is(txfile.NoDiskSpace, err)), "st": e.St()})
	e.endTx(err == nil)
	return err
}

// Rollback rolls the write transaction back (closeOnly: use Tx.Close).
func (e *Env) Rollback(closeOnly bool) error {
	var err error
	if closeOnly {
		err = e.Tx.Close()
	} else {
		err = e.Tx.Rollback()
	}
	e.Emit(core.Event{"ev": "Rollback", "err": ErrKind(err), "hdrIssued": false, "faulty": e.Disk.Injected() > e.injAtBegin, "close": closeOnly, "st": e.St()})
	e.endTx(false)
	return err
}

// Reader is a read-only transaction of the environment.
type Reader struct {
	Name string
	Tx   *txfile.Tx
}

// BeginRead starts a read-only transaction. withSt must only be set when no
// write transaction is active on another goroutine.
func (e *Env) BeginRead(name string, withSt bool) (*Reader, error) {
	tx, err := e.F.BeginReadonly()
	if err != nil {
		e.Emit(core.Event{"ev": "BeginR", "r": name, "err": ErrKind(err)})
		return nil, err
	}
	ev := core.Event{"ev": "BeginR", "r": name, "err": "", "root": uint64(tx.Root())}
	if withSt {
		ev["st"] = e.St()
	} else {
		ev["lk"] = e.Lk()
	}
	e.Emit(ev)
	return &Reader{Name: name, Tx: tx}, nil
}

// Read reads a page through the reader.
func (e *Env) Read(r *Reader, id uint64) {
	q, err := ReadPage(r.Tx, id)
	e.Emit(core.Event{"ev": "ReadR", "r": r.Name, "id": id, "q": q, "err": ErrKind(err)})
}

// EndRead closes the reader.
func (e *Env) EndRead(r *Reader, withSt bool) {
	r.Tx.Close()
	ev := core.Event{"ev": "EndR", "r": r.Name}
	if withSt {
		ev["st"] = e.St()
	} else {
		ev["lk"] = e.Lk()
	}
	e.Emit(ev)
}

// ReadAll reads every page of the committed state through a fresh reader.
func (e *Env) ReadAll(name string) {
	r, err := e.BeginRead(name, e.Tx == nil)
	if err != nil {
		return
	}
	ids := make([]uint64, 0, len(e.Live))
	for id := range e.Live {
		ids = append(ids, id)
	}
	sort.Slice(ids, func(i, j int) bool { return ids[i] < ids[j] })
	for _, id := range ids {
		e.Read(r, id)
	}
	e.EndRead(r, e.Tx == nil)
}

// LiveOf computes the pages that are live according to a file snapshot.
func LiveOf(st txfile.VerifState) []uint64 {
	used := map[uint64]bool{}
	mark := func(rs []txfile.VerifRegion) {
		for _, r := range rs {
			for i := uint64(0); i < uint64(r.Count); i++ {
				used[r.ID+i] = true
			}
		}
	}
	mark(st.DataFree)
	mark(st.MetaFree)
	mark(st.FreelistPages)
	mark(st.WALPages)
	for _, kv := range st.WAL {
		used[kv[1]] = true
	}
	var out []uint64
	for id := uint64(2); id < st.DataEnd; id++ {
		if !used[id] {
			out = append(out, id)
		}
	}
	return out
}

// ReadLogical reads root and all live pages of an open file.
func ReadLogical(f *txfile.File) (root uint64, pages [][2]interface{}, model map[uint64][4]int, err error) {
	st := f.VerifSnapshot(false)
	tx, err := f.BeginReadonly()
	if err != nil {
		return 0, nil, nil, err
	}
	defer tx.Close()
	root = uint64(tx.Root())
	model = map[uint64][4]int{}
	pages = [][2]interface{}{}
	for _, id := range LiveOf(st) {
		q, rerr := ReadPage(tx, id)
		if rerr != nil {
			q = [4]int{QGarbage, QGarbage, QGarbage, QGarbage}
		}
		pages = append(pages, [2]interface{}{id, q})
		model[id] = q
	}
	return root, pages, model, nil
}

// Resize closes the file and opens it again with a new maximum size (FlagUpdMaxSize).
func (e *Env) Resize(newMax uint64, prealloc bool) error {
	// the extent the file already claims: pages up to the end markers may not have been written yet
	snap := e.F.VerifSnapshot(false)
	end := snap.DataEnd
	if snap.MetaEnd > end {
		end = snap.MetaEnd
	}
	e.closing()
	if err := e.F.Close(); err != nil {
		return err
	}
	// (measured after Close: writes of a rolled back transaction may still have been queued in
	// the background writer and extend the file before it is closed)
	vol, _ := e.Disk.Snapshot()
	before := uint(len(vol))
	if uint(end)*uint(e.PS) > before {
		before = uint(end) * uint(e.PS)
	}
	e.unsinkOld()
	e.Disk.Reopen()
	opts := txfile.Options{MaxSize: newMax, Flags: txfile.FlagUpdMaxSize, Prealloc: prealloc}
	// the internal transactions of the open write pages: keep classifying them
	e.F, e.opening, e.openGID = nil, true, goidOf()
	e.unsink = core.AddHookSink(e.sink)
	f, err := txfile.VerifOpenWith(e.Disk, opts)
	e.opening = false
	if err != nil {
		e.unsinkOld()
		e.Emit(core.Event{"ev": "ReopenFailed", "err": ErrKind(err), "msg": fmt.Sprintf("%+v", err), "resize": newMax})
		return err
	}
	e.F = f
	e.setWriter(f.VerifWriterID())
	e.ExtentLimit = before
	if uint(newMax) > before {
		e.ExtentLimit = uint(newMax)
	}
	if newMax == 0 {
		e.ExtentLimit = 0
	}
	e.Emit(core.Event{"ev": "OpenResize", "newmax": newMax / uint64(e.PS), "prealloc": prealloc, "st": e.St()})
	return e.probeIdle()
}

// ErrBlocked: a Begin on an idle file did not return.
var ErrBlocked = fmt.Errorf("transaction blocked on an idle file")

// probeIdle is called when no transaction of the environment is open. If the lock does not
// look idle, a read and a write transaction are really started under a watchdog; a "Blocked"
// event is recorded when one of them does not get through (the history ends there: the
// goroutine that hangs is left behind).
func (e *Env) probeIdle() error {
	sh, pe := e.F.VerifLockState()
	if sh == 0 && !pe {
		return nil
	}
	f := e.F
	try := func(op string, fn func() error) error {
		done := make(chan error, 1)
		go func() { done <- fn() }()
		select {
		case <-done:
			return nil
		case <-time.After(3 * time.Second):
			e.Emit(core.Event{"ev": "Blocked", "op": op, "lk": map[string]interface{}{"sh": sh, "pe": pe, "res": false}})
			return ErrBlocked
		}
	}
	if err := try("BeginReadonly", func() error {
		tx, err := f.BeginReadonly()
		if err == nil {
			tx.Close()
		}
		return err
	}); err != nil {
		return err
	}
	return try("Begin", func() error {
		tx, err := f.Begin()
		if err == nil {
			tx.Close()
		}
		return err
	})
}

func goidOf() uint64 {
	var buf [64]byte
	n := runtime.Stack(buf[:], false)
	b := buf[len("goroutine "):n]
	var id uint64
	for _, c := range b {
		if c < '0' || c > '9' {
			break
		}
		id = id*10 + uint64(c-'0')
	}
	return id
}
