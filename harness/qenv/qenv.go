// Package qenv drives a real pq.Queue on a real txfile.File on a simulated
// disk through the public API and records the trace events judged by
// PQTrace.tla.
package qenv

import (
	"fmt"
	"sort"
	"sync"
	"sync/atomic"

	txfile "github.com/elastic/go-txfile"
	"github.com/elastic/go-txfile/pq"
	"github.com/elastic/go-txfile/txerr"

	"verif/core"
	"verif/fenv"
	"verif/simdisk"
)

// EventByte is byte j of event number id: the first byte identifies id mod 256.
func EventByte(id uint64, j int) byte {
	return byte(id*131 + uint64(j)*uint64(j)*3 + uint64(j)*17)
}

// FillEvent fills b with bytes [off, off+len(b)) of event id.
func FillEvent(b []byte, id uint64, off int) {
	for i := range b {
		b[i] = EventByte(id, off+i)
	}
}

// inv131 is the inverse of 131 modulo 256.
var inv131 = func() uint64 {
	for x := uint64(1); x < 256; x += 2 {
		if (x*131)%256 == 1 {
			return x
		}
	}
	return 1
}()

// ErrKind names pq / txfile error kinds.
func ErrKind(err error) string {
	if err == nil {
		return ""
	}
	kinds := map[string]error{
		"QueueClosed": pq.QueueClosed, "ReaderClosed": pq.ReaderClosed, "WriterClosed": pq.WriterClosed,
		"ACKEmptyQueue": pq.ACKEmptyQueue, "ACKTooMany": pq.ACKTooMany, "InactiveTx": pq.InactiveTx,
		"UnexpectedActiveTx": pq.UnexpectedActiveTx, "InitFailed": pq.InitFailed, "NoQueueRoot": pq.NoQueueRoot,
		"ReadFail": pq.ReadFail, "SeekFail": pq.SeekFail, "InvalidParam": pq.InvalidParam,
		"OutOfMemory": txfile.OutOfMemory, "NoDiskSpace": txfile.NoDiskSpace, "TxCommitFail": txfile.TxCommitFail,
		"TxFinished": txfile.TxFinished, "InvalidOp": txfile.InvalidOp,
	}
	var names []string
	for n, k := range kinds {
		if txerr.Is(k, err) {
			names = append(names, n)
		}
	}
	if len(names) == 0 {
		return "error"
	}
	sort.Strings(names)
	s := names[0]
	for _, n := range names[1:] {
		s += "+" + n
	}
	return s
}

// IsFull reports whether err says that the file is out of space.
func IsFull(err error) bool {
	return err != nil && (txerr.Is(txfile.OutOfMemory, err) || txerr.Is(txfile.NoDiskSpace, err))
}

// Env is one queue on one file on one simulated disk.
type Env struct {
	Tick *int64 // progress counter of the driver's watchdog (optional)
	Disk *simdisk.Disk
	F    *txfile.File
	Q    *pq.Queue
	W    *pq.Writer
	R    *pq.Reader
	PS   int
	Opts txfile.Options
	Set  pq.Settings

	mu     sync.Mutex
	events []core.Event

	unsink   func()
	txKind   string // kind of the queue transaction currently started ("flush" / "ack")
	kindMu   sync.Mutex
	ackN     int
	QueueIO0 int // index of the first I/O call after the queue root exists

	// producer bookkeeping (inputs, not verdicts)
	Acked    uint64 // events acknowledged successfully so far
	NextID   uint64 // id of the event being written
	CurOff   int    // bytes of the current event handed to Write so far
	rdOK     bool
	rdOff    int // bytes of the event being read so far
	rdCid    int
	RecordIO bool // record one IO event per write/sync/truncate (crash points)
}

// Emit appends an event.
func (e *Env) Emit(ev core.Event) {
	if e.Tick != nil {
		atomic.AddInt64(e.Tick, 1)
	}
	e.mu.Lock()
	e.events = append(e.events, ev)
	e.mu.Unlock()
}

// Events returns the recorded events.
func (e *Env) Events() []core.Event {
	e.mu.Lock()
	defer e.mu.Unlock()
	return append([]core.Event(nil), e.events...)
}

// New creates the environment (file not yet opened).
func New(name string, opts txfile.Options, writeBuffer uint) *Env {
	core.InstallHook()
	e := &Env{Disk: simdisk.New(name), Opts: opts, PS: int(opts.PageSize)}
	e.Disk.OnOp = func(op *simdisk.Op) {
		if e.RecordIO && (op.Kind == simdisk.OpWrite || op.Kind == simdisk.OpSync || op.Kind == simdisk.OpTruncate) {
			e.Emit(core.Event{"ev": "IO", "io": op.Idx, "k": op.Kind})
		}
	}
	e.Set = pq.Settings{
		WriteBuffer: writeBuffer,
		Flushed:     func(n uint) { e.Emit(core.Event{"ev": "Flushed", "n": n}) },
		ACKed:       func(ev, pages uint) { e.Emit(core.Event{"ev": "ACKed", "n": ev, "pages": pages}) },
	}
	return e
}

func (e *Env) setKind(k string) {
	e.kindMu.Lock()
	e.txKind = k
	e.kindMu.Unlock()
}

func (e *Env) sink(ev txfile.VerifEvent) {
	if ev.File == nil || ev.File != e.F {
		return
	}
	switch ev.Point {
	case "commit/pending":
		e.kindMu.Lock()
		k := e.txKind
		e.kindMu.Unlock()
		if k == "init" {
			return
		}
		e.Emit(core.Event{"ev": "QTxBegin", "kind": k, "io": e.Disk.NOps()})
	case "commit/switched":
		e.kindMu.Lock()
		k := e.txKind
		e.kindMu.Unlock()
		if k == "init" {
			return
		}
		e.Emit(core.Event{"ev": "QSwitched", "kind": k, "io": e.Disk.NOps()})
	case "commit/failed":
		e.kindMu.Lock()
		k := e.txKind
		e.kindMu.Unlock()
		if k == "init" {
			return
		}
		e.Emit(core.Event{"ev": "QTxFailed", "io": e.Disk.NOps()})
	}
}

// delegate wraps the standalone delegate to learn the kind of each transaction.
type delegate struct {
	pq.Delegate
	e *Env
}

func (d *delegate) BeginWrite() (*txfile.Tx, error) {
	tx, err := d.Delegate.BeginWrite()
	d.e.setKind("flush") // the reserved lock is held from here to the end of the transaction
	return tx, err
}

func (d *delegate) BeginCleanup() (*txfile.Tx, error) {
	tx, err := d.Delegate.BeginCleanup()
	d.e.setKind("ack")
	return tx, err
}

// Open opens (or creates) file and queue. The first Open emits QOpen with
// create=true; later ones are reopen events.
func (e *Env) Open(first bool) error {
	e.Disk.Reopen()
	f, err := txfile.VerifOpenWith(e.Disk, e.Opts)
	if err != nil {
		e.Emit(core.Event{"ev": "QOpenFailed", "err": fenv.ErrKind(err), "msg": err.Error()})
		return err
	}
	e.F = f
	e.PS = f.PageSize()
	if e.unsink != nil {
		e.unsink()
	}
	e.unsink = core.AddHookSink(e.sink)
	e.setKind("init")
	d, err := pq.NewStandaloneDelegate(f)
	if err != nil {
		e.Emit(core.Event{"ev": "QOpenFailed", "err": ErrKind(err), "msg": err.Error()})
		return err
	}
	q, err := pq.New(&delegate{d, e}, e.Set)
	if err != nil {
		e.Emit(core.Event{"ev": "QOpenFailed", "err": ErrKind(err), "msg": err.Error()})
		return err
	}
	e.Q = q
	w, err := q.Writer()
	if err != nil {
		e.Emit(core.Event{"ev": "QOpenFailed", "err": ErrKind(err), "msg": err.Error()})
		return err
	}
	e.W, e.R = w, q.Reader()
	e.CurOff = 0
	if first {
		e.QueueIO0 = e.Disk.NOps()
		e.Emit(core.Event{"ev": "QOpen", "ps": e.PS - 28, "maxp": e.Opts.MaxSize / uint64(e.PS), "io": e.QueueIO0})
	}
	return nil
}

// Close closes queue and file.
func (e *Env) Close() (qerr error) {
	if e.Q != nil {
		qerr = e.Q.Close()
		e.Q = nil
	}
	if e.F != nil {
		e.F.Close()
		e.F = nil
	}
	if e.unsink != nil {
		e.unsink()
		e.unsink = nil
	}
	return qerr
}

// Reopen closes the queue (which flushes the write buffer) and the file and opens both again.
func (e *Env) Reopen() error {
	qerr := e.Q.Close()
	e.Q = nil
	e.Emit(core.Event{"ev": "QClose", "err": ErrKind(qerr), "full": IsFull(qerr)})
	e.F.Close()
	e.F = nil
	if err := e.Open(false); err != nil {
		return err
	}
	// the event in progress (if any) is dropped with the old writer
	e.CurOff = 0
	p, perr := e.Q.Pending()
	e.Emit(core.Event{"ev": "QReopen", "pending": p, "err": ErrKind(perr)})
	if perr == nil {
		e.NextID = e.Acked + uint64(p)
	}
	return nil
}

// Abandon models the death of the process: the queue object is dropped without Close (its
// write buffer is lost), the file is closed and both are opened again.
func (e *Env) Abandon() error {
	e.Q = nil
	e.Emit(core.Event{"ev": "QAbandon"})
	e.F.Close()
	e.F = nil
	if err := e.Open(false); err != nil {
		return err
	}
	e.CurOff = 0
	p, perr := e.Q.Pending()
	e.Emit(core.Event{"ev": "QReopen", "pending": p, "err": ErrKind(perr)})
	if perr == nil {
		e.NextID = e.Acked + uint64(p)
	}
	return nil
}

// Inuse decodes the number of pages the queue holds from its root page.
func (e *Env) Inuse() (uint64, bool) { return e.inuse() }

// LastRead reports the event id (mod 256) and the content check of the bytes of the last RRead.
func (e *Env) LastRead() (int, bool) { return e.rdCid, e.rdOK }

// ---------------------------------------------------------------------------
// producer

// Write appends n bytes of the current event.
func (e *Env) Write(n int) error {
	b := make([]byte, n)
	FillEvent(b, e.NextID, e.CurOff)
	inj := e.Disk.Injected()
	got, err := e.W.Write(b)
	if err == nil {
		e.CurOff += got
	}
	e.Emit(core.Event{"ev": "Write", "n": n, "got": got, "err": ErrKind(err), "full": IsFull(err) || e.Disk.Injected() > inj, "inj": e.Disk.Injected() > inj})
	return err
}

// Next finishes the current event.
func (e *Env) Next() error {
	// the event is part of the buffer even if the flush triggered by Next fails
	e.Emit(core.Event{"ev": "NextCall", "size": e.CurOff})
	inj := e.Disk.Injected()
	err := e.W.Next()
	e.Emit(core.Event{"ev": "Next", "err": ErrKind(err), "full": IsFull(err) || e.Disk.Injected() > inj, "inj": e.Disk.Injected() > inj})
	e.NextID++
	e.CurOff = 0
	return err
}

// Flush flushes the write buffer.
func (e *Env) Flush() error {
	inj := e.Disk.Injected()
	err := e.W.Flush()
	e.Emit(core.Event{"ev": "Flush", "err": ErrKind(err), "full": IsFull(err) || e.Disk.Injected() > inj, "inj": e.Disk.Injected() > inj})
	return err
}

// ---------------------------------------------------------------------------
// consumer

// RBegin starts a read transaction.
func (e *Env) RBegin() error {
	err := e.R.Begin()
	e.Emit(core.Event{"ev": "RBegin", "err": ErrKind(err)})
	return err
}

// RDone ends the read transaction.
func (e *Env) RDone() {
	e.R.Done()
	e.Emit(core.Event{"ev": "RDone"})
}

// RNext advances to the next event.
func (e *Env) RNext() (int, error) {
	n, err := e.R.Next()
	e.rdOff, e.rdCid = 0, -1
	e.Emit(core.Event{"ev": "RNext", "size": n, "err": ErrKind(err)})
	return n, err
}

// RRead reads up to n bytes of the current event and checks them against the
// content pattern of the event identified by its first byte.
func (e *Env) RRead(n int) (int, error) {
	b := make([]byte, n)
	got, err := e.R.Read(b)
	ok := true
	if got > 0 {
		if e.rdOff == 0 {
			e.rdCid = int((uint64(b[0]) * inv131) % 256)
		}
		for i := 0; i < got; i++ {
			if b[i] != EventByte(uint64(e.rdCid), e.rdOff+i) {
				ok = false
			}
		}
		e.rdOff += got
	}
	if got < 0 {
		got = 0
	}
	e.rdOK = ok
	e.Emit(core.Event{"ev": "RRead", "n": n, "got": got, "cid": e.rdCid, "ok": ok, "err": ErrKind(err)})
	return got, err
}

// Available reports Reader.Available (inside a read transaction).
func (e *Env) Available() {
	n, err := e.R.Available()
	e.Emit(core.Event{"ev": "Available", "n": n, "err": ErrKind(err)})
}

// ACK acknowledges n events.
func (e *Env) ACK(n int) error {
	e.Emit(core.Event{"ev": "ACKCall", "n": n})
	err := e.Q.ACK(uint(n))
	if err == nil {
		e.Acked += uint64(n)
	}
	e.Emit(core.Event{"ev": "ACK", "n": n, "err": ErrKind(err), "full": IsFull(err)})
	return err
}

// Counters records Pending and Active and the space the queue holds.
func (e *Env) Counters() {
	p, perr := e.Q.Pending()
	a, aerr := e.Q.Active()
	ev := core.Event{"ev": "Counters", "pending": p, "active": a, "err": ErrKind(perr) + ErrKind(aerr)}
	// space: decoded queue header (inuse) and file stats
	st := e.F.VerifSnapshot(false)
	ev["data"] = st.Stats.DataAllocated
	ev["fsz"] = st.Size / int64(e.PS)
	if inuse, ok := e.inuse(); ok {
		ev["inuse"] = inuse
	} else {
		ev["inuse"] = -1
	}
	vol, _ := e.Disk.Snapshot()
	ev["extent"] = len(vol)
	e.Emit(ev)
}

// inuse decodes the queue root page.
func (e *Env) inuse() (uint64, bool) {
	tx, err := e.F.BeginReadonly()
	if err != nil {
		return 0, false
	}
	defer tx.Close()
	root := tx.Root()
	if root == 0 {
		return 0, false
	}
	pg, err := tx.Page(root)
	if err != nil {
		return 0, false
	}
	b, err := pg.Bytes()
	if err != nil || len(b) < 60 {
		return 0, false
	}
	// queuePage: version u32, head pos(16), tail pos(16), read pos(16), inuse u64
	off := 4 + 16*3
	var v uint64
	for i := 0; i < 8; i++ {
		v |= uint64(b[off+i]) << (8 * uint(i))
	}
	return v, true
}

var _ = fmt.Sprint
