// Package simdisk implements an in-memory file with an explicit
// volatile/durable split, an I/O log for crash image enumeration, coherent
// private mmap views (poisoned on unmap), fault injection and a write stall gate.
package simdisk

import (
	"errors"
	"fmt"
	"sync"
)

// Op kinds
const (
	OpWrite    = "w"
	OpSync     = "sync"
	OpTruncate = "trunc"
	OpSize     = "size"
	OpMMap     = "mmap"
	OpMUnmap   = "munmap"
	OpRead     = "r"
)

// Poison is the byte pattern of unmapped views and of bytes past EOF.
const Poison = 0xDB

// Op is one entry of the I/O log.
type Op struct {
	Idx  int    // global index of the call (counting all kinds)
	Kind string // OpWrite, ...
	Off  int64
	Len  int
	Data []byte // copy of data written (OpWrite) - the bytes that took effect
	Size int64  // OpTruncate: new size; OpMMap: mapping size; OpSize: result
	Err  bool   // the call returned an error
	Mark string // marker inserted by the harness (Kind == "mark")
}

// FaultMode selects the behaviour of a failing call.
type FaultMode int

const (
	NoFault    FaultMode = iota
	FailBefore           // return error, no effect
	ShortWrite           // write half of the buffer, then return an error
)

// ErrInjected is returned by failing calls.
var ErrInjected = errors.New("simdisk: injected I/O failure")

// Disk is the simulated file. It implements txfile.VerifFile.
type Disk struct {
	mu   sync.Mutex
	name string

	data    []byte // volatile content
	durable []byte // content at last completed sync
	pend    []int  // indices into ops of writes/truncates since last sync

	ops   []Op
	nops  int
	views [][]byte

	locked bool
	closed bool

	injected int

	MaxExtent int64

	// Fault is consulted for every call of kind w/sync/trunc/size/mmap with the
	// per-kind call counter (starting at 0) and the global call index.
	Fault func(kind string, nth int, idx int) FaultMode
	kindN map[string]int

	// OnOp is called (with the disk mutex held) after each logged operation.
	OnOp func(op *Op)

	// write stall gate
	stallMu   sync.Mutex
	stallCond *sync.Cond
	stalled   bool
	stallHits int
}

// New creates an empty disk.
func New(name string) *Disk {
	d := &Disk{name: name, kindN: map[string]int{}}
	d.stallCond = sync.NewCond(&d.stallMu)
	return d
}

// FromImage creates a disk with the given durable content.
func FromImage(name string, img []byte) *Disk {
	d := New(name)
	d.data = append([]byte(nil), img...)
	d.durable = append([]byte(nil), img...)
	d.MaxExtent = int64(len(img))
	return d
}

func (d *Disk) Name() string { return d.name }

func (d *Disk) fault(kind string) FaultMode {
	n := d.kindN[kind]
	d.kindN[kind] = n + 1
	if d.Fault == nil {
		return NoFault
	}
	m := d.Fault(kind, n, d.nops)
	if m != NoFault {
		d.injected++
	}
	return m
}

// Injected returns the number of injected failures so far.
func (d *Disk) Injected() int {
	d.mu.Lock()
	defer d.mu.Unlock()
	return d.injected
}

func (d *Disk) log(op Op) {
	op.Idx = d.nops
	d.nops++
	d.ops = append(d.ops, op)
	if op.Kind == OpWrite || op.Kind == OpTruncate {
		if !op.Err || op.Len > 0 {
			d.pend = append(d.pend, len(d.ops)-1)
		}
	}
	if d.OnOp != nil {
		d.OnOp(&d.ops[len(d.ops)-1])
	}
}

// Mark inserts a marker into the I/O log.
func (d *Disk) Mark(m string) {
	d.mu.Lock()
	defer d.mu.Unlock()
	d.ops = append(d.ops, Op{Idx: d.nops, Kind: "mark", Mark: m})
}

// Stall makes WriteAt block until Release is called.
func (d *Disk) Stall() {
	d.stallMu.Lock()
	d.stalled = true
	d.stallHits = 0
	d.stallMu.Unlock()
}

// Release unblocks stalled writers.
func (d *Disk) Release() {
	d.stallMu.Lock()
	d.stalled = false
	d.stallMu.Unlock()
	d.stallCond.Broadcast()
}

// StallHits reports how many WriteAt calls are/were blocked by the gate.
func (d *Disk) StallHits() int {
	d.stallMu.Lock()
	defer d.stallMu.Unlock()
	return d.stallHits
}

func (d *Disk) waitStall() {
	d.stallMu.Lock()
	if d.stalled {
		d.stallHits++
	}
	for d.stalled {
		d.stallCond.Wait()
	}
	d.stallMu.Unlock()
}

func (d *Disk) applyWrite(off int64, b []byte) {
	end := off + int64(len(b))
	if end > int64(len(d.data)) {
		n := make([]byte, end)
		copy(n, d.data)
		d.data = n
	}
	copy(d.data[off:], b)
	if end > d.MaxExtent {
		d.MaxExtent = end
	}
	for _, v := range d.views {
		if off < int64(len(v)) {
			// bytes between old EOF and off become zero: refresh whole range
			copy(v[off:], b)
		}
	}
}

// refreshViews re-synchronises the byte range [from, to) of all views with the
// file contents (bytes past EOF are poison). Only the given range is touched:
// readers of other parts of a view (e.g. the active header page) must not see
// a write to their memory.
func (d *Disk) refreshViews(from, to int) {
	for _, v := range d.views {
		hi := to
		if hi > len(v) {
			hi = len(v)
		}
		for i := from; i < hi; i++ {
			if i < len(d.data) {
				v[i] = d.data[i]
			} else {
				v[i] = Poison
			}
		}
	}
}

// WriteAt implements io.WriterAt.
func (d *Disk) WriteAt(b []byte, off int64) (int, error) {
	d.waitStall()
	d.mu.Lock()
	defer d.mu.Unlock()
	if d.closed {
		return 0, errors.New("simdisk: closed")
	}
	switch d.fault(OpWrite) {
	case FailBefore:
		d.log(Op{Kind: OpWrite, Off: off, Len: 0, Err: true})
		return 0, ErrInjected
	case ShortWrite:
		n := len(b) / 2
		oldLen := len(d.data)
		d.applyWrite(off, b[:n])
		if oldLen < int(off) {
			d.refreshViews(oldLen, int(off))
		}
		d.log(Op{Kind: OpWrite, Off: off, Len: n, Data: append([]byte(nil), b[:n]...), Err: true})
		return n, ErrInjected
	}
	oldLen := len(d.data)
	d.applyWrite(off, b)
	if oldLen < int(off) {
		d.refreshViews(oldLen, int(off))
	}
	d.log(Op{Kind: OpWrite, Off: off, Len: len(b), Data: append([]byte(nil), b...)})
	return len(b), nil
}

// ReadAt implements io.ReaderAt.
func (d *Disk) ReadAt(b []byte, off int64) (int, error) {
	d.mu.Lock()
	defer d.mu.Unlock()
	if off >= int64(len(d.data)) {
		return 0, fmt.Errorf("simdisk: read at %d past EOF %d", off, len(d.data))
	}
	n := copy(b, d.data[off:])
	if n < len(b) {
		return n, fmt.Errorf("simdisk: short read at %d (EOF %d)", off, len(d.data))
	}
	return n, nil
}

// Size returns the current volatile size.
func (d *Disk) Size() (int64, error) {
	d.mu.Lock()
	defer d.mu.Unlock()
	if d.fault(OpSize) != NoFault {
		d.log(Op{Kind: OpSize, Err: true})
		return 0, ErrInjected
	}
	d.log(Op{Kind: OpSize, Size: int64(len(d.data))})
	return int64(len(d.data)), nil
}

// Truncate changes the file size.
func (d *Disk) Truncate(sz int64) error {
	d.mu.Lock()
	defer d.mu.Unlock()
	if d.fault(OpTruncate) != NoFault {
		d.log(Op{Kind: OpTruncate, Size: sz, Err: true})
		return ErrInjected
	}
	oldLen := len(d.data)
	if sz <= int64(len(d.data)) {
		d.data = d.data[:sz:sz]
		d.refreshViews(int(sz), oldLen)
	} else {
		n := make([]byte, sz)
		copy(n, d.data)
		d.data = n
		if sz > d.MaxExtent {
			d.MaxExtent = sz
		}
		d.refreshViews(oldLen, int(sz))
	}
	d.log(Op{Kind: OpTruncate, Size: sz})
	return nil
}

// Sync makes all pending writes durable.
func (d *Disk) Sync(dataOnly bool) error {
	d.mu.Lock()
	defer d.mu.Unlock()
	if d.fault(OpSync) != NoFault {
		d.log(Op{Kind: OpSync, Err: true})
		return ErrInjected
	}
	d.durable = append(d.durable[:0], d.data...)
	d.pend = d.pend[:0]
	d.log(Op{Kind: OpSync})
	return nil
}

// Lock takes the (simulated) path lock.
func (d *Disk) Lock(exclusive, blocking bool) error {
	d.mu.Lock()
	defer d.mu.Unlock()
	if d.locked {
		return errors.New("simdisk: already locked")
	}
	d.locked = true
	return nil
}

// Unlock releases the path lock.
func (d *Disk) Unlock() error {
	d.mu.Lock()
	defer d.mu.Unlock()
	d.locked = false
	return nil
}

// Close closes the file.
func (d *Disk) Close() error {
	d.mu.Lock()
	defer d.mu.Unlock()
	d.closed = true
	return nil
}

// Reopen makes a closed disk usable again (a new open of the same path).
func (d *Disk) Reopen() {
	d.mu.Lock()
	defer d.mu.Unlock()
	d.closed = false
}

// MMap returns a private view of sz bytes that is kept coherent with writes.
func (d *Disk) MMap(sz int) ([]byte, error) {
	d.mu.Lock()
	defer d.mu.Unlock()
	if d.fault(OpMMap) != NoFault {
		d.log(Op{Kind: OpMMap, Size: int64(sz), Err: true})
		return nil, ErrInjected
	}
	v := make([]byte, sz)
	n := copy(v, d.data)
	for i := n; i < sz; i++ {
		v[i] = Poison
	}
	d.views = append(d.views, v)
	d.log(Op{Kind: OpMMap, Size: int64(sz)})
	return v, nil
}

// MUnmap poisons and drops a view.
func (d *Disk) MUnmap(b []byte) error {
	d.mu.Lock()
	defer d.mu.Unlock()
	if len(b) == 0 {
		d.log(Op{Kind: OpMUnmap})
		return nil
	}
	for i, v := range d.views {
		if len(v) > 0 && &v[0] == &b[0] {
			for j := range v {
				v[j] = Poison
			}
			d.views = append(d.views[:i], d.views[i+1:]...)
			break
		}
	}
	d.log(Op{Kind: OpMUnmap, Size: int64(len(b))})
	return nil
}

// Views reports the number of live mmap views.
func (d *Disk) Views() int {
	d.mu.Lock()
	defer d.mu.Unlock()
	return len(d.views)
}

// Snapshot returns copies of the volatile and durable contents.
func (d *Disk) Snapshot() (vol, dur []byte) {
	d.mu.Lock()
	defer d.mu.Unlock()
	return append([]byte(nil), d.data...), append([]byte(nil), d.durable...)
}

// Ops returns a copy of the I/O log.
func (d *Disk) Ops() []Op {
	d.mu.Lock()
	defer d.mu.Unlock()
	return append([]Op(nil), d.ops...)
}

// NOps returns the number of I/O calls so far.
func (d *Disk) NOps() int {
	d.mu.Lock()
	defer d.mu.Unlock()
	return d.nops
}

// ---------------------------------------------------------------------------
// crash images

// Replayer walks an I/O log and produces crash images.
type Replayer struct {
	ops     []Op
	pos     int
	durable []byte
	vol     []byte
	pend    []Op
}

// NewReplayer starts at the empty file (or the given initial durable image).
func NewReplayer(initial []byte, ops []Op) *Replayer {
	return &Replayer{ops: ops, durable: append([]byte(nil), initial...), vol: append([]byte(nil), initial...)}
}

func applyTo(img []byte, op Op, upto int) []byte {
	switch op.Kind {
	case OpWrite:
		data := op.Data
		if upto >= 0 && upto < len(data) {
			data = data[:upto]
		}
		end := op.Off + int64(len(data))
		if end > int64(len(img)) {
			n := make([]byte, end)
			copy(n, img)
			img = n
		}
		copy(img[op.Off:], data)
	case OpTruncate:
		if op.Err {
			return img
		}
		if op.Size <= int64(len(img)) {
			img = img[:op.Size]
		} else {
			n := make([]byte, op.Size)
			copy(n, img)
			img = n
		}
	}
	return img
}

// Step consumes the next op; returns false at the end of the log.
func (r *Replayer) Step() (Op, bool) {
	if r.pos >= len(r.ops) {
		return Op{}, false
	}
	op := r.ops[r.pos]
	r.pos++
	switch op.Kind {
	case OpWrite, OpTruncate:
		if op.Kind == OpTruncate && op.Err {
			break
		}
		if op.Kind == OpWrite && len(op.Data) == 0 {
			break
		}
		r.vol = applyTo(r.vol, op, -1)
		r.pend = append(r.pend, op)
	case OpSync:
		if !op.Err {
			r.durable = append(r.durable[:0], r.vol...)
			r.pend = r.pend[:0]
		}
	}
	return op, true
}

// Pos is the number of consumed log entries.
func (r *Replayer) Pos() int { return r.pos }

// Pending returns the un-synced operations.
func (r *Replayer) Pending() []Op { return r.pend }

// Image builds the crash image in which exactly the pending operations selected
// by keep (bit i = pending op i persisted) have reached the disk. If tear >= 0
// the last selected write persists only its first tear bytes.
func (r *Replayer) Image(keep uint64, tear int) []byte {
	img := append([]byte(nil), r.durable...)
	last := -1
	for i := range r.pend {
		if keep&(1<<uint(i)) != 0 {
			last = i
		}
	}
	for i, op := range r.pend {
		if keep&(1<<uint(i)) == 0 {
			continue
		}
		if i == last && tear >= 0 {
			img = applyTo(img, op, tear)
		} else {
			img = applyTo(img, op, -1)
		}
	}
	return img
}

// Volatile returns the volatile content at the current position.
func (r *Replayer) Volatile() []byte { return append([]byte(nil), r.vol...) }
