#!/bin/bash
# usage: mutrun.sh <patch.diff> <prop> [<prop>...]   (applies the patch to /repo, runs the quick checks, reverts)
patch=$1; shift
cd /repo || exit 2
if ! git apply --check "$patch" 2>/dev/null; then echo "PATCH DOES NOT APPLY: $patch"; exit 2; fi
git apply "$patch"
for p in "$@"; do
  out=$(cd /verif && timeout 1800 ./check $p ${TIER:-quick} 2>&1); rc=$?
  echo "== $patch :: $p rc=$rc"
  echo "$out" | grep -E "^(VIOLATION|KNOWN|MACHINERY|  signature|OK)" | cut -c1-400 | head -${LINES_MAX:-4}
done
cd /repo && git checkout -- . && git status --short | grep -v '^??' | head -3
