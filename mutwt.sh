#!/bin/bash
# mutwt.sh <patch.diff> <property>... : apply a patch to a scratch worktree of /repo (not to /repo
# itself) and run the quick checks against it (VERIF_REPO). Evidence goes to evidence/scratch.
patch=$1; shift
wt=/tmp/scratch/mutwt.$$
mkdir -p /tmp/scratch
git -C /repo worktree add -q --detach $wt HEAD || exit 2
trap 'git -C /repo worktree remove --force $wt' EXIT
git -C $wt apply $patch || exit 2
for p in "$@"; do
  echo "== $p against $patch"
  (cd /verif && VERIF_REPO=$wt timeout 3600 ./check $p ${TIER:-quick} 2>&1 | grep -E "signature|^OK|^VIOLATION|MACHINERY|KNOWN" | sort | uniq -c | sort -rn | head -${LINES_MAX:-12})
done
