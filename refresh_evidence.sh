#!/bin/bash
# Runs every check (quick tier by default) on /repo's working tree and so rewrites evidence/<id>.json.
cd /verif
git -C /repo status --short | grep -q . && { echo "/repo working tree is not clean"; exit 2; }
rc=0
for p in C01 C02 C03 C04 C05 C06 C07 C08 C09 C10 C11 C12 C13 C14 C15 C16 C17 C18; do
  ./check $p ${1:-quick} 2>&1 | grep -E "^(OK|VIOLATION|KNOWN-FINDING|MACHINERY)" | cut -c1-200
  [ ${PIPESTATUS[0]} -ne 0 ] && rc=1
done
./validate.sh | tail -1
exit $rc
