-------------------------------- MODULE Api --------------------------------
(***************************************************************************)
(* Lifecycle state machines of the public objects (Tx, Page of txfile;     *)
(* Reader, Writer, ACK of pq) with one action per public method.  The      *)
(* outcome table Expect gives, for every (receiver state, method), the     *)
(* documented result: "ok", an error kind, or "unspecified" (the           *)
(* documentation is silent: only "no panic, no hang, no change" is         *)
(* required).  C15: misuse is an error of the documented kind, never a     *)
(* panic, and changes nothing.                                             *)
(*                                                                         *)
(* TLC enumerates the reachable (state, method) cells; ApiReplay prints    *)
(* one path per transition; the harness executes every path on the real    *)
(* code and ApiTrace.tla judges every observed result.                     *)
(***************************************************************************)
EXTENDS Integers, Sequences, TLC

CONSTANT Part   \* "tx": Tx and Page methods, "q": queue methods (the two parts are independent)

VARIABLES
  tx,    \* "none" | "rw" | "ro" | "committed" | "rolledback" | "closed" | "failed"
  was,   \* kind of the transaction before it finished: "rw" | "ro" | "-"
  pg,    \* page handle of the transaction: "none" | "new" | "newdirty" | "clean" | "loaded" | "dirty" | "flushed" | "freed"
  qu,    \* queue: "open" | "closed"
  rd,    \* reader: "idle" | "intx"
  pend,  \* un-ACKed events in the queue: 0 .. 2
  cf     \* the queue was closed by a Close that reported an error (kept apart so that every
         \* method is exercised on both kinds of closed queue)

vars == <<tx, was, pg, qu, rd, pend, cf>>

Finished == {"committed", "rolledback", "closed", "failed"}

TxMethods == {"Commit", "CommitFailing", "Rollback", "Close", "Alloc", "PageValid", "PageOutOfRange", "PageFreed",
              "RootPage", "Flush", "Checkpoint", "PageSize", "Begin", "BeginRO"}
PageMethods == {"Bytes", "Load", "SetBytes", "SetBytesOversize", "MarkDirty", "Free", "PFlush"}
QMethods == {"QWrite1", "QFlush", "RBegin", "RDone", "RNext", "RRead", "RAvailable", "Ack0", "Ack1", "AckTooMany", "QClose",
             "QCloseFailing"}   \* Close while the final flush of the write buffer hits an I/O error
Methods == IF Part = "tx" THEN TxMethods \cup PageMethods ELSE QMethods

(***************************************************************************)
(* Expected outcome of method m in the current state                       *)
(***************************************************************************)
\* error a finished transaction reports: canWrite tests the readonly flag last
FinWrite == IF was = "ro" THEN "TxReadOnly" ELSE "TxFinished"

ExpectTx(m) ==
  CASE m \in {"Begin", "BeginRO"} -> IF tx \in {"rw", "ro"} THEN "skip" ELSE "ok"   \* (a second Begin would block)
    [] tx = "none" -> "skip"
    [] tx \in Finished ->
         (CASE m \in {"Commit", "CommitFailing", "Rollback"} -> "TxFinished"
            [] m = "Close" -> "ok"
            [] m \in {"Alloc", "Flush", "Checkpoint"} -> FinWrite
            [] m \in {"PageValid", "PageOutOfRange", "PageFreed"} -> "TxFinished"
            [] m = "RootPage" -> "unspecified"
            [] m = "PageSize" -> "unspecified"
            [] OTHER -> "skip")
    [] tx = "ro" ->
         (CASE m \in {"Commit", "CommitFailing", "Rollback", "Close"} -> "ok"
            [] m \in {"Alloc", "Flush", "Checkpoint"} -> "TxReadOnly"
            [] m = "PageValid" -> "ok"
            [] m = "PageOutOfRange" -> "InvalidPageID"
            [] m = "PageFreed" -> "skip"
            [] m \in {"RootPage", "PageSize"} -> "ok"
            [] OTHER -> "skip")
    [] tx = "rw" ->
         (CASE m \in {"Commit", "Rollback", "Close", "Alloc", "Flush", "Checkpoint", "RootPage", "PageSize"} -> "ok"
            [] m = "CommitFailing" -> "TxCommitFail"
            [] m = "PageValid" -> "ok"
            [] m = "PageOutOfRange" -> "InvalidPageID"
            [] m = "PageFreed" -> IF pg = "freed" THEN "InvalidOp" ELSE "skip"
            [] OTHER -> "skip")

ExpectPage(m) ==
  IF pg = "none" THEN "skip"
  ELSE IF tx \in Finished THEN
         (IF m = "Bytes" THEN "TxFinished" ELSE FinWrite)
  ELSE IF tx = "ro" THEN
         (IF m = "Bytes" THEN "ok" ELSE "TxReadOnly")
  ELSE \* tx = "rw"
    CASE m = "Bytes" -> IF pg = "new" THEN "InvalidOp" ELSE IF pg = "freed" THEN "unspecified" ELSE "ok"
      [] m = "Load" -> IF pg \in {"freed", "flushed"} THEN "InvalidOp" ELSE "ok"
      [] m = "SetBytes" -> IF pg \in {"freed", "flushed"} THEN "InvalidOp" ELSE "ok"
      [] m = "SetBytesOversize" -> IF pg \in {"freed", "flushed"} THEN "InvalidOp" ELSE "InvalidParam"
      [] m = "MarkDirty" -> IF pg \in {"freed", "flushed"} THEN "InvalidOp"
                            ELSE IF pg \in {"new", "clean"} THEN "skip" ELSE "ok"   \* (dirty without contents: not exercised)
      [] m = "Free" -> IF pg \in {"freed", "flushed"} THEN "InvalidOp"
                       ELSE IF pg \in {"newdirty", "dirty"} THEN "InvalidOp" ELSE "ok"
      [] m = "PFlush" -> IF pg \in {"freed", "flushed"} THEN "InvalidOp" ELSE "ok"
      [] OTHER -> "skip"

ExpectQ(m) ==
  IF qu = "closed" THEN
    CASE m \in {"QWrite1", "QFlush"} -> "QueueClosedOrWriterClosed"
      [] m \in {"RBegin", "RNext", "RRead", "RAvailable"} -> "ReaderClosed"
      [] m = "RDone" -> "ok"
      [] m = "Ack0" -> "ok"
      [] m \in {"Ack1", "AckTooMany"} -> "QueueClosed"
      [] m = "QClose" -> "ok"
      [] OTHER -> "skip"
  ELSE IF m = "QCloseFailing" THEN (IF rd = "idle" THEN "anyerror" ELSE "skip")
  ELSE
    \* (a commit waits for all read transactions: flushing or ACKing while the same goroutine
    \* holds the reader's transaction open can not return - not exercised)
    CASE m = "QWrite1" -> IF pend < 2 /\ rd = "idle" THEN "ok" ELSE "skip"
      [] m \in {"QFlush", "QClose"} -> "ok"
      [] m = "RBegin" -> IF rd = "intx" THEN "UnexpectedActiveTx" ELSE "ok"
      [] m = "RDone" -> "ok"
      [] m \in {"RNext", "RRead", "RAvailable"} -> IF rd = "intx" THEN "ok" ELSE "InactiveTx"
      [] m = "Ack0" -> "ok"
      [] m = "Ack1" -> IF pend >= 1 THEN (IF rd = "idle" THEN "ok" ELSE "skip") ELSE "ACKEmptyQueueOrTooMany"
      [] m = "AckTooMany" -> "ACKEmptyQueueOrTooMany"
      [] OTHER -> "skip"

Expect(m) == IF m \in TxMethods THEN ExpectTx(m) ELSE IF m \in PageMethods THEN ExpectPage(m) ELSE ExpectQ(m)

IsError(x) == x \notin {"ok", "skip", "unspecified"}

(***************************************************************************)
(* Effects of successful calls                                             *)
(***************************************************************************)
DoTx(m) ==
  CASE m = "Begin" -> tx' = "rw" /\ was' = "rw" /\ pg' = "none"
    [] m = "BeginRO" -> tx' = "ro" /\ was' = "ro" /\ pg' = "none"
    [] m = "Commit" -> tx' = "committed" /\ UNCHANGED <<was, pg>>
    [] m = "CommitFailing" -> tx' = "failed" /\ UNCHANGED <<was, pg>>
    [] m = "Rollback" -> tx' = "rolledback" /\ UNCHANGED <<was, pg>>
    [] m = "Close" -> tx' = (IF tx \in Finished THEN tx ELSE "closed") /\ UNCHANGED <<was, pg>>
    [] m = "Alloc" -> pg' = "new" /\ UNCHANGED <<tx, was>>
    [] m = "PageValid" -> pg' = (IF pg = "none" THEN "clean" ELSE pg) /\ UNCHANGED <<tx, was>>
    [] m = "Flush" -> pg' = (IF pg \in {"newdirty", "dirty"} THEN "flushed" ELSE pg) /\ UNCHANGED <<tx, was>>
    [] OTHER -> UNCHANGED <<tx, was, pg>>

DoPage(m) ==
  CASE m = "Load" -> pg' = (IF pg \in {"new", "clean"} THEN "loaded" ELSE pg)
    [] m = "SetBytes" -> pg' = (IF pg \in {"new", "newdirty"} THEN "newdirty" ELSE "dirty")
    [] m = "MarkDirty" -> pg' = (IF pg \in {"loaded"} THEN "dirty" ELSE pg)
    [] m = "Free" -> pg' = "freed"
    [] m = "PFlush" -> pg' = (IF pg \in {"newdirty", "dirty"} THEN "flushed" ELSE pg)
    [] OTHER -> pg' = pg

DoQ(m) ==
  CASE m = "QWrite1" -> pend' = pend + 1 /\ UNCHANGED <<qu, rd>>
    [] m = "RBegin" -> rd' = "intx" /\ UNCHANGED <<qu, pend>>
    [] m = "RDone" -> rd' = "idle" /\ UNCHANGED <<qu, pend>>
    [] m = "Ack1" -> pend' = pend - 1 /\ UNCHANGED <<qu, rd>>
    [] m = "QClose" -> qu' = "closed" /\ rd' = "idle" /\ UNCHANGED pend
    [] OTHER -> UNCHANGED <<qu, rd, pend>>

\* one public call: applicable unless the cell is "skip"; only "ok" results change the state
Call(m) ==
  /\ Expect(m) # "skip"
  /\ IF Expect(m) = "ok"
       THEN IF m \in TxMethods THEN DoTx(m) /\ UNCHANGED <<qu, rd, pend, cf>>
            ELSE IF m \in PageMethods THEN DoPage(m) /\ UNCHANGED <<tx, was, qu, rd, pend, cf>>
            ELSE DoQ(m) /\ UNCHANGED <<tx, was, pg, cf>>
       ELSE IF Expect(m) = "TxCommitFail"
            THEN tx' = "failed" /\ UNCHANGED <<was, pg, qu, rd, pend, cf>>
       ELSE IF m = "QCloseFailing"          \* the queue is closed although Close reported an error
            THEN qu' = "closed" /\ rd' = "idle" /\ cf' = TRUE /\ UNCHANGED <<tx, was, pg, pend>>
            ELSE UNCHANGED vars            \* MisuseChangesNothing

Init == tx = "none" /\ was = "-" /\ pg = "none" /\ qu = "open" /\ rd = "idle" /\ pend = 0 /\ cf = FALSE

Next == \E m \in Methods : Call(m)

Spec == Init /\ [][Next]_vars

TypeOK ==
  /\ tx \in {"none", "rw", "ro"} \cup Finished
  /\ pg \in {"none", "new", "newdirty", "clean", "loaded", "dirty", "flushed", "freed"}
  /\ qu \in {"open", "closed"} /\ rd \in {"idle", "intx"} /\ pend \in 0..2

\* a finished transaction stays finished whatever is called on it
FinishedIsFinal == [][(tx \in Finished) => (tx' = tx \/ tx' \in {"rw", "ro"})]_vars
=============================================================================
