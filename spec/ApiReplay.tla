----------------------------- MODULE ApiReplay -----------------------------
(* Generator: one path per transition of Api.tla (see LockReplay.tla).     *)
EXTENDS Api
VARIABLE hist
RInit == Init /\ hist = ""
RNext == \E m \in Methods : Call(m) /\ hist' = hist \o m \o ":" \o Expect(m) \o ","
RSpec == RInit /\ [][RNext]_<<vars, hist>>
View == vars
Emit == PrintT("@P " \o hist')
=============================================================================
