------------------------------ MODULE ApiTrace ------------------------------
(***************************************************************************)
(* Judges the results of the real public methods against Api.tla!Expect.   *)
(* Every line: the method called, the observed result class ("ok", error   *)
(* kinds joined by +, "panic", "hang") and whether the observable state    *)
(* (committed contents, allocator projection, state of the running         *)
(* transaction, queue counters) was the same before and after the call.    *)
(***************************************************************************)
EXTENDS Api, Json

VARIABLES l, devs

Trace == ndJsonDeserialize("trace.ndjson")
Ev == Trace[l]

\* does the observed result (set of kind names) match the expected class?
Has(e, k) == \E i \in 1..Len(e.kinds) : e.kinds[i] = k
Matches(e, exp) ==
  CASE exp = "ok" -> e.res = "ok"
    [] exp = "unspecified" -> e.res \in {"ok", "error"}
    [] exp = "anyerror" -> e.res = "error"
    [] exp = "QueueClosedOrWriterClosed" -> e.res = "error" /\ (Has(e, "QueueClosed") \/ Has(e, "WriterClosed"))
    [] exp = "ACKEmptyQueueOrTooMany" -> e.res = "error" /\ (Has(e, "ACKEmptyQueue") \/ Has(e, "ACKTooMany"))
    [] OTHER -> e.res = "error" /\ Has(e, exp)

CheckLine(e) ==
  LET exp == Expect(e.m) IN
  (IF Matches(e, exp) THEN {} ELSE {<<l, "C15", IF e.res \in {"panic", "hang"} THEN "MisusePanicsOrHangs" ELSE "WrongResult">>})
  \cup (IF exp \notin {"ok", "TxCommitFail", "anyerror"} /\ ~e.unchanged THEN {<<l, "C15", "MisuseChangedState">>} ELSE {})

TInit == Init /\ l = 1 /\ devs = {} /\ TLCSet(1, {})

TNext ==
  /\ l <= Len(Trace)
  /\ l' = l + 1
  /\ IF Ev.ev = "Reset"
       THEN /\ tx' = "none" /\ was' = "-" /\ pg' = "none" /\ qu' = "open" /\ rd' = "idle" /\ pend' = 0 /\ cf' = FALSE
            /\ devs' = devs
       ELSE IF Ev.ev = "Call"
       THEN /\ Call(Ev.m)
            /\ devs' = devs \cup CheckLine(Ev)
       ELSE UNCHANGED vars /\ devs' = devs
  /\ IF devs' # devs THEN TLCSet(1, devs') ELSE TRUE

TSpec == TInit /\ [][TNext]_<<vars, l, devs>>

Post == /\ PrintT("@D " \o ToString(TLCGet("stats").diameter))
        /\ PrintT("@V " \o ToString(TLCGet(1)))
=============================================================================
