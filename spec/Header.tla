------------------------------- MODULE Header -------------------------------
(***************************************************************************)
(* Choice of the file header at open (file.go: readValidMeta,              *)
(* layout.go: Validate).  Two header slots; each is Intact(txid) or        *)
(* Damaged.  Transaction ids live in a ring of size M and are compared     *)
(* with serial number arithmetic (the code: int64(tx0 - tx1) > 0), which   *)
(* is a total order on any two ids less than M/2 apart - the only case     *)
(* that arises: the two slots hold consecutive commits.                    *)
(*                                                                         *)
(* The explorer enumerates every pair of slot states reachable by commits  *)
(* and damage; Open must pick per the rule.  HeaderTrace.tla judges the    *)
(* result of the real Open on concrete damaged bytes.                      *)
(***************************************************************************)
EXTENDS Integers, FiniteSets, TLC

CONSTANTS M,          \* size of the txid ring
          MaxCommits

VARIABLES slot,       \* slot[i] = [ok |-> BOOLEAN, txid |-> 0..M-1, st |-> state label]
          active,     \* slot the running process considers active
          commits,
          opened      \* result of the last Open: [res |-> "slot0" | "slot1" | "error", st |-> ...] or "none"

vars == <<slot, active, commits, opened>>
NoOpen == [res |-> "none", st |-> -1]

\* a is newer than b in the ring (ids less than M/2 apart)
Newer(a, b) == ((a - b) % M) # 0 /\ ((a - b) % M) < M \div 2

\* the rule of C16
Choice(s0, s1) ==
  IF s0.ok /\ s1.ok THEN (IF s0.txid = s1.txid THEN "slot0"
                          ELSE IF Newer(s0.txid, s1.txid) THEN "slot0" ELSE "slot1")
  ELSE IF s0.ok THEN "slot0"
  ELSE IF s1.ok THEN "slot1"
  ELSE "error"

Init ==
  /\ \E t \in 0..(M - 1) :            \* any starting point in the ring (wrap-around included)
       slot = [i \in {0, 1} |-> [ok |-> TRUE, txid |-> (t + 1 - i) % M, st |-> 1 - i]]
  /\ active = 0 /\ commits = 1 /\ opened = NoOpen

\* a commit writes the inactive slot with txid + 1 and the new state
Commit ==
  /\ commits < MaxCommits
  /\ LET n == 1 - active IN
     /\ slot' = [slot EXCEPT ![n] = [ok |-> TRUE, txid |-> (slot[active].txid + 1) % M, st |-> commits + 1]]
     /\ active' = n
  /\ commits' = commits + 1 /\ opened' = NoOpen

\* arbitrary damage of one slot (bit flips, torn write, zeroes, garbage)
Damage(i) ==
  /\ slot[i].ok
  /\ slot' = [slot EXCEPT ![i].ok = FALSE]
  /\ UNCHANGED <<active, commits>> /\ opened' = NoOpen

\* a torn write may also leave the slot valid with its old or new contents - covered by
\* Commit having happened or not.

Open ==
  /\ LET c == Choice(slot[0], slot[1]) IN
     opened' = IF c = "error" THEN [res |-> "error", st |-> -1]
               ELSE [res |-> c, st |-> slot[IF c = "slot0" THEN 0 ELSE 1].st]
  /\ UNCHANGED <<slot, active, commits>>

Next == Commit \/ Damage(0) \/ Damage(1) \/ Open

Spec == Init /\ [][Next]_vars

(***************************************************************************)
(* Properties                                                              *)
(***************************************************************************)
\* a damaged header never wins; the intact one does; both intact: the newer commit
DamagedNeverWins ==
  opened # NoOpen =>
    /\ (opened.res = "slot0" => slot[0].ok)
    /\ (opened.res = "slot1" => slot[1].ok)
    /\ (opened.res = "error" <=> (~slot[0].ok /\ ~slot[1].ok))

NewestIntactWins ==
  (opened # NoOpen /\ opened.res # "error") =>
    \A i \in {0, 1} : slot[i].ok => opened.st >= slot[i].st

\* without damage Open shows the last commit
NoDamageShowsLast ==
  (opened # NoOpen /\ slot[0].ok /\ slot[1].ok) => opened.st = commits
=============================================================================
