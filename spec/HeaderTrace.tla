---------------------------- MODULE HeaderTrace ----------------------------
(***************************************************************************)
(* Judges the real Open on concrete (damaged) header bytes against the     *)
(* rule of Header.tla.  Every line is one Open of one file image:          *)
(*   v0, v1 : validity of the two header pages per the harness' independent*)
(*            decoder (magic, version, FNV-1a checksum)                    *)
(*   newer  : slot holding the newer txid by serial number arithmetic on   *)
(*            the decoded 64 bit ids (0 / 1; 0 if equal)                   *)
(*   s0, s1 : label of the logical state each header described before the  *)
(*            damage                                                       *)
(*   res    : "ok" | "error" | "panic"; got: label of the logical state    *)
(*            read back through the opened file ("X": none of them)        *)
(***************************************************************************)
EXTENDS Integers, Sequences, TLC, Json

VARIABLES l, devs

Trace == ndJsonDeserialize("trace.ndjson")
Ev == Trace[l]

Expected(e) ==
  IF e.v0 /\ e.v1 THEN (IF e.newer = 0 THEN e.s0 ELSE e.s1)
  ELSE IF e.v0 THEN e.s0
  ELSE IF e.v1 THEN e.s1
  ELSE "error"

OK(e) ==
  IF Expected(e) = "error" THEN e.res = "error"
  ELSE e.res = "ok" /\ e.got = Expected(e)

TInit == l = 1 /\ devs = {} /\ TLCSet(1, {})

TNext ==
  /\ l <= Len(Trace)
  /\ l' = l + 1
  /\ devs' = IF Ev.ev = "Open" /\ ~OK(Ev) THEN devs \cup {<<l, "C16", IF Ev.res = "panic" THEN "OpenPanics" ELSE "WrongHeaderChoice">>} ELSE devs
  /\ IF devs' # devs THEN TLCSet(1, devs') ELSE TRUE

TSpec == TInit /\ [][TNext]_<<l, devs>>

Post == /\ PrintT("@D " \o ToString(TLCGet("stats").diameter))
        /\ PrintT("@V " \o ToString(TLCGet(1)))
=============================================================================
