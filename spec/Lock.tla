------------------------------- MODULE Lock -------------------------------
(***************************************************************************)
(* In-process transaction lock of go-txfile (lock.go) and its users        *)
(* (file.go: beginTx, File.Close, withInitTx; tx.go: tryCommitChanges,     *)
(* Tx.close).                                                              *)
(*                                                                         *)
(* One action per lock method.  A blocking method is split into            *)
(*   Call : the goroutine enters the method,                               *)
(*   Park : it finds its guard false and goes to sleep                     *)
(*          (sync.Cond.Wait / the wait queue of sync.Mutex),               *)
(*   Acq  : awake, it finds the guard true and performs the state change   *)
(*          (this is what the conformance harness observes as "returned"). *)
(* Releasing methods wake sleepers exactly as the code does:               *)
(*   pendingLock.Unlock   -> shared.Broadcast()   (all sleeping readers)    *)
(*   sharedLock.Unlock    -> exclusive.Signal() only when sharedCount = 0  *)
(*   reserved.Unlock      -> sync.Mutex hand-off (trusted primitive)       *)
(* so a lost wake-up in the design shows up as a liveness violation.       *)
(*                                                                         *)
(* Processes:                                                              *)
(*   Readers  : BeginReadonly ... Close                                    *)
(*   Writers  : Begin ... Rollback | Commit | failing Commit.  The         *)
(*              open-time maintenance transaction (withInitTx) takes the   *)
(*              same steps as a committing writer and is modelled as one.  *)
(*   Closer   : File.Close                                                 *)
(***************************************************************************)
EXTENDS Naturals, FiniteSets, Sequences, TLC

CONSTANTS
  \* @type: Set(Str);
  Readers,
  \* @type: Set(Str);
  Writers,
  \* @type: Str;
  Closer,
  \* @type: Int;
  MaxOps,
  \* @type: Str;
  None

Procs == Readers \cup Writers \cup {Closer}

VARIABLES
  \* @type: Int;
  shared,     \* lock.sharedCount
  \* @type: Bool;
  pending,    \* lock.pendingSet
  \* @type: Str;
  reserved,   \* holder of lock.reserved (a process) or None
  \* @type: Str -> Str;
  pc,         \* control state per process
  \* @type: Str -> Int;
  ops,        \* number of transactions begun per process (bound)
  \* @type: Bool;
  closed,     \* File.Close finished
  \* @type: Str -> Bool;
  parked      \* process is asleep inside sync.Cond.Wait / the mutex wait queue

vars == <<shared, pending, reserved, pc, ops, closed, parked>>

WaitStates == {"rwait", "wwait", "xwait", "cwait", "cxwait"}

TypeOK ==
  /\ shared \in Nat
  /\ pending \in BOOLEAN
  /\ reserved \in Procs \cup {None}
  /\ pc \in [Procs -> {"idle", "rwait", "reading",
                      "wwait", "active", "pend", "xwait", "excl", "switched", "unpend",
                      "failing",
                      "cwait", "cres", "cpend", "cxwait", "done"}]
  /\ ops \in [Procs -> 0..MaxOps]
  /\ closed \in BOOLEAN
  /\ parked \in [Procs -> BOOLEAN]

Init ==
  /\ shared = 0 /\ pending = FALSE /\ reserved = None
  /\ pc = [p \in Procs |-> "idle"]
  /\ ops = [p \in Procs |-> 0]
  /\ closed = FALSE
  /\ parked = [p \in Procs |-> FALSE]

Goto(p, s) == pc' = [pc EXCEPT ![p] = s]

(***************************************************************************)
(* Guards of the blocking methods (lock.go).                               *)
(***************************************************************************)
SharedGuard    == ~pending            \* sharedLock.check
ReservedGuard  == reserved = None     \* sync.Mutex
ExclusiveGuard == shared = 0          \* exclusiveLock.check

Guard(p) ==
  CASE pc[p] = "rwait"  -> SharedGuard
    [] pc[p] = "wwait"  -> ReservedGuard
    [] pc[p] = "cwait"  -> ReservedGuard
    [] pc[p] = "xwait"  -> ExclusiveGuard
    [] pc[p] = "cxwait" -> ExclusiveGuard
    [] OTHER            -> FALSE

\* wake-ups
WakeReaders   == [p \in Procs |-> IF pc[p] = "rwait" THEN FALSE ELSE parked[p]]              \* shared.Broadcast()
WakeExclusive == [p \in Procs |-> IF pc[p] \in {"xwait", "cxwait"} THEN FALSE ELSE parked[p]] \* exclusive.Signal(): at most one waiter exists
WakeReserved  == [p \in Procs |-> IF pc[p] \in {"wwait", "cwait"} THEN FALSE ELSE parked[p]]  \* sync.Mutex.Unlock

\* the goroutine evaluated its guard, found it false and went to sleep
Park(p) ==
  /\ pc[p] \in WaitStates /\ ~parked[p] /\ ~Guard(p)
  /\ parked' = [parked EXCEPT ![p] = TRUE]
  /\ UNCHANGED <<shared, pending, reserved, pc, ops, closed>>

(***************************************************************************)
(* Readers                                                                 *)
(***************************************************************************)
RCall(r) ==   \* File.BeginReadonly entered: Shared().Lock() called
  /\ pc[r] = "idle" /\ ops[r] < MaxOps /\ ~closed /\ pc[Closer] = "idle"
  /\ Goto(r, "rwait") /\ ops' = [ops EXCEPT ![r] = @ + 1]
  /\ UNCHANGED <<shared, pending, reserved, closed, parked>>

RAcq(r) ==    \* sharedLock.Lock: !pendingSet seen, sharedCount++
  /\ pc[r] = "rwait" /\ SharedGuard /\ ~parked[r]
  /\ shared' = shared + 1 /\ Goto(r, "reading")
  /\ UNCHANGED <<pending, reserved, ops, closed, parked>>

RUnlock(r) == \* Tx.Close of a readonly tx: sharedLock.Unlock (Signal iff the count drops to 0)
  /\ pc[r] = "reading"
  /\ shared' = shared - 1 /\ Goto(r, "idle")
  /\ parked' = IF shared' = 0 THEN WakeExclusive ELSE parked
  /\ UNCHANGED <<pending, reserved, ops, closed>>

(***************************************************************************)
(* Writers                                                                 *)
(***************************************************************************)
WCall(w) ==   \* File.Begin entered: Reserved().Lock() called
  /\ pc[w] = "idle" /\ ops[w] < MaxOps /\ ~closed /\ pc[Closer] = "idle"
  /\ Goto(w, "wwait") /\ ops' = [ops EXCEPT ![w] = @ + 1]
  /\ UNCHANGED <<shared, pending, reserved, closed, parked>>

WAcq(w) ==    \* reserved mutex acquired
  /\ pc[w] = "wwait" /\ ReservedGuard /\ ~parked[w]
  /\ reserved' = w /\ Goto(w, "active")
  /\ UNCHANGED <<shared, pending, ops, closed, parked>>

WRollback(w) == \* Rollback / Close without commit: Tx.close -> reserved.Unlock
  /\ pc[w] = "active"
  /\ reserved' = None /\ Goto(w, "idle") /\ parked' = WakeReserved
  /\ UNCHANGED <<shared, pending, ops, closed>>

WPending(w) ==  \* Commit: pending.Lock()
  /\ pc[w] = "active"
  /\ pending' = TRUE /\ Goto(w, "pend")
  /\ UNCHANGED <<shared, reserved, ops, closed, parked>>

WFail(w) ==     \* commit fails before the exclusive lock: deferred pending.Unlock
  /\ pc[w] = "pend"
  /\ pending' = FALSE /\ Goto(w, "failing") /\ parked' = WakeReaders
  /\ UNCHANGED <<shared, reserved, ops, closed>>

WFailClose(w) == \* rollbackChanges + Tx.close -> reserved.Unlock
  /\ pc[w] = "failing"
  /\ reserved' = None /\ Goto(w, "idle") /\ parked' = WakeReserved
  /\ UNCHANGED <<shared, pending, ops, closed>>

WXCall(w) ==    \* commit is durable: exclusive.Lock() called
  /\ pc[w] = "pend"
  /\ Goto(w, "xwait")
  /\ UNCHANGED <<shared, pending, reserved, ops, closed, parked>>

WXAcq(w) ==     \* exclusiveLock.Lock: sharedCount == 0 seen
  /\ pc[w] = "xwait" /\ ExclusiveGuard /\ ~parked[w]
  /\ Goto(w, "excl")
  /\ UNCHANGED <<shared, pending, reserved, ops, closed, parked>>

WSwitch(w) ==   \* in-memory switch (wal.Commit, metaActive), truncate/remap
  /\ pc[w] = "excl"
  /\ Goto(w, "switched")
  /\ UNCHANGED <<shared, pending, reserved, ops, closed, parked>>

WUnpend(w) ==   \* deferred exclusive.Unlock (no-op) + pending.Unlock
  /\ pc[w] = "switched"
  /\ pending' = FALSE /\ Goto(w, "unpend") /\ parked' = WakeReaders
  /\ UNCHANGED <<shared, reserved, ops, closed>>

WDone(w) ==     \* Tx.close -> reserved.Unlock
  /\ pc[w] = "unpend"
  /\ reserved' = None /\ Goto(w, "idle") /\ parked' = WakeReserved
  /\ UNCHANGED <<shared, pending, ops, closed>>

(***************************************************************************)
(* File.Close.  Scope (see DESIGN.md C09): no Begin call is issued once    *)
(* Close has been invoked; transactions already open are waited for.       *)
(***************************************************************************)
CCall ==
  /\ pc[Closer] = "idle" /\ ~closed
  /\ \A p \in Readers : pc[p] # "rwait"
  /\ \A p \in Writers : pc[p] # "wwait"
  /\ Goto(Closer, "cwait")
  /\ UNCHANGED <<shared, pending, reserved, ops, closed, parked>>

CAcq ==
  /\ pc[Closer] = "cwait" /\ ReservedGuard /\ ~parked[Closer]
  /\ reserved' = Closer /\ Goto(Closer, "cres")
  /\ UNCHANGED <<shared, pending, ops, closed, parked>>

CPending ==
  /\ pc[Closer] = "cres"
  /\ pending' = TRUE /\ Goto(Closer, "cxwait")
  /\ UNCHANGED <<shared, reserved, ops, closed, parked>>

CXAcq ==
  /\ pc[Closer] = "cxwait" /\ ExclusiveGuard /\ ~parked[Closer]
  /\ Goto(Closer, "cpend")
  /\ UNCHANGED <<shared, pending, reserved, ops, closed, parked>>

CFinish ==      \* munmap, writer stop, deferred unlocks, *f = File{}
  /\ pc[Closer] = "cpend"
  /\ pending' = FALSE /\ reserved' = None /\ closed' = TRUE /\ Goto(Closer, "done")
  /\ UNCHANGED <<shared, ops, parked>>

Next ==
  \/ \E p \in Procs : Park(p)
  \/ \E r \in Readers : RCall(r) \/ RAcq(r) \/ RUnlock(r)
  \/ \E w \in Writers : WCall(w) \/ WAcq(w) \/ WRollback(w) \/ WPending(w) \/ WFail(w)
                        \/ WFailClose(w) \/ WXCall(w) \/ WXAcq(w) \/ WSwitch(w)
                        \/ WUnpend(w) \/ WDone(w)
  \/ CCall \/ CAcq \/ CPending \/ CXAcq \/ CFinish

Fairness ==
  /\ \A r \in Readers : WF_vars(RAcq(r)) /\ WF_vars(RUnlock(r))
  /\ \A w \in Writers : /\ WF_vars(WAcq(w))
                        /\ WF_vars(WRollback(w) \/ WPending(w))
                        /\ WF_vars(WFail(w) \/ WXCall(w))
                        /\ WF_vars(WFailClose(w)) /\ WF_vars(WXAcq(w)) /\ WF_vars(WSwitch(w))
                        /\ WF_vars(WUnpend(w)) /\ WF_vars(WDone(w))
  /\ WF_vars(CAcq) /\ WF_vars(CPending) /\ WF_vars(CXAcq) /\ WF_vars(CFinish)

Spec == Init /\ [][Next]_vars /\ Fairness

(***************************************************************************)
(* Properties                                                              *)
(***************************************************************************)
InWriteTx(w) == pc[w] \in {"active", "pend", "xwait", "excl", "switched", "unpend", "failing"}

OneWriter == Cardinality({w \in Writers : InWriteTx(w)}) <= 1

HolderExact ==
  /\ \A w \in Writers : InWriteTx(w) <=> reserved = w
  /\ (reserved = Closer) <=> pc[Closer] \in {"cres", "cxwait", "cpend"}

SharedCountExact == shared = Cardinality({r \in Readers : pc[r] = "reading"})

ExclMeansNoReaders ==
  /\ \A w \in Writers : pc[w] \in {"excl", "switched"} => shared = 0
  /\ pc[Closer] = "cpend" => shared = 0

PendingExact ==
  pending <=> \/ \E w \in Writers : pc[w] \in {"pend", "xwait", "excl", "switched"}
              \/ pc[Closer] \in {"cxwait", "cpend"}

\* only one process ever waits for the exclusive lock (Signal is enough)
OneExclusiveWaiter == Cardinality({p \in Procs : pc[p] \in {"xwait", "cxwait"}}) <= 1

\* nobody sleeps although its guard holds (no lost wake-up), and only waiters sleep
NoLostWakeup == \A p \in Procs : parked[p] => (pc[p] \in WaitStates /\ ~Guard(p))

\* no transaction open and nobody inside a lock method => everything is free
Quiescent == \A p \in Procs : pc[p] \in {"idle", "done"}
IdleMeansFree == Quiescent => shared = 0 /\ ~pending /\ reserved = None

\* every process has finished or some action is enabled
AllFinished == /\ \A p \in Readers \cup Writers : pc[p] = "idle" /\ (ops[p] = MaxOps \/ closed \/ pc[Closer] # "idle")
               /\ pc[Closer] = "done"
NoDeadlock == AllFinished \/ ENABLED Next

\* [] no new reader while pending
NoNewReaderWhilePending == [][\A r \in Readers : (pc[r] = "rwait" /\ pc'[r] = "reading") => ~pending]_vars

\* liveness: every call returns
EveryBeginReturns ==
  /\ \A r \in Readers : (pc[r] = "rwait") ~> (pc[r] = "reading")
  /\ \A w \in Writers : (pc[w] = "wwait") ~> (pc[w] = "active")
  /\ \A w \in Writers : (pc[w] = "xwait") ~> (pc[w] = "excl")
  /\ (pc[Closer] = "cwait") ~> (pc[Closer] = "done")
  /\ \A w \in Writers : InWriteTx(w) ~> (pc[w] = "idle")
=============================================================================
