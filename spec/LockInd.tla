------------------------------ MODULE LockInd ------------------------------
(***************************************************************************)
(* Inductive invariant of Lock.tla, checked with Apalache (symbolic):      *)
(*   Init => IndInv                 (--init=Init    --length=0)            *)
(*   IndInv /\ Next => IndInv'       (--init=IndInit --length=1)            *)
(* The invariant does not mention how many transactions a process has run  *)
(* (ops only bounds the explorer), so the safety properties of the lock    *)
(* hold for any number of transactions of 3 readers, 2 writers and Close.  *)
(***************************************************************************)
EXTENDS Lock

ConstInit ==
  /\ Readers = {"r1", "r2", "r3"} /\ Writers = {"w1", "w2"} /\ Closer = "c" /\ MaxOps = 3 /\ None = "none"

RdStates == {"idle", "rwait", "reading"}
WrStates == {"idle", "wwait", "active", "pend", "xwait", "excl", "switched", "unpend", "failing"}
ClStates == {"idle", "cwait", "cres", "cpend", "cxwait", "done"}

Roles ==
  /\ \A r \in Readers : pc[r] \in RdStates
  /\ \A w \in Writers : pc[w] \in WrStates
  /\ pc[Closer] \in ClStates
  /\ closed <=> pc[Closer] = "done"
  /\ shared >= 0 /\ shared <= Cardinality(Readers)
  /\ reserved \in Writers \cup {Closer, None}
  /\ pc[Closer] = "done" => (\A p \in Readers \cup Writers : pc[p] = "idle")
  \* scope of File.Close: no Begin call is pending or issued once Close has been invoked
  /\ pc[Closer] # "idle" => ((\A r \in Readers : pc[r] # "rwait") /\ (\A w \in Writers : pc[w] # "wwait"))

IndInv ==
  /\ TypeOK /\ Roles
  /\ HolderExact /\ SharedCountExact /\ ExclMeansNoReaders /\ PendingExact /\ NoLostWakeup
  /\ OneWriter /\ OneExclusiveWaiter /\ IdleMeansFree

IndInit == IndInv
=============================================================================
