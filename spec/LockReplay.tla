---------------------------- MODULE LockReplay ----------------------------
(***************************************************************************)
(* Generator of replayable paths for the transition-cover conformance test *)
(* of the real lock.  Same actions as Lock.tla, plus:                      *)
(*  - hist: the path (as a string) leading to the current state;           *)
(*  - urgency: whenever a waiting process can acquire or has to go to      *)
(*    sleep, only Acq / Park steps are taken (the real goroutine does that *)
(*    on its own as soon as it runs, and the replayer waits for it) - so   *)
(*    every path printed here can be scheduled deterministically on the    *)
(*    real code;                                                           *)
(*  - every transition is printed once by the action constraint Emit.      *)
(* "parked" is part of the view: acquiring after having slept (which needs *)
(* the wake-up of the releasing side) is a different transition from       *)
(* acquiring at once.                                                      *)
(***************************************************************************)
EXTENDS Lock

VARIABLES hist,
          woken   \* ghost: processes that slept, have been woken and have not acted yet.  Part of
                  \* the view, so that "acquire after a wake-up" is a transition of its own
                  \* (it fails on the real code when the wake-up is lost).

CanAcq(p) == pc[p] \in WaitStates /\ Guard(p) /\ ~parked[p]
CanPark(p) == pc[p] \in WaitStates /\ ~Guard(p) /\ ~parked[p]
Urgent == \E p \in Procs : CanAcq(p) \/ CanPark(p)

RECURSIVE Join(_)
Join(S) == IF S = {} THEN "" ELSE LET x == CHOOSE y \in S : TRUE IN x \o "+" \o Join(S \ {x})

B(b) == IF b THEN "1" ELSE "0"

GuardP(p) ==
  CASE pc'[p] = "rwait"  -> ~pending'
    [] pc'[p] = "wwait"  -> reserved' = None
    [] pc'[p] = "cwait"  -> reserved' = None
    [] pc'[p] = "xwait"  -> shared' = 0
    [] pc'[p] = "cxwait" -> shared' = 0
    [] OTHER             -> FALSE
WaitingP(p) == pc'[p] \in WaitStates

\* post-state description appended to each step:
\*   blk = waiting processes that must not return now, urg = processes with an urgent step
Post == "sh=" \o ToString(shared') \o ";pe=" \o B(pending') \o ";re=" \o
        (IF reserved' = None THEN "-" ELSE reserved') \o ";blk=" \o
        Join({p \in Procs : WaitingP(p) /\ ~GuardP(p)}) \o ";urg=" \o
        Join({p \in Procs : WaitingP(p) /\ ~parked'[p]})

Step(a, p) == /\ hist' = hist \o a \o ":" \o p \o ":" \o Post \o ","
              /\ woken' = ((woken \cup {q \in Procs : parked[q] /\ ~parked'[q]})
                            \ (IF a \in {"Park", "RAcq", "WAcq", "WXAcq", "CAcq", "CXAcq"} THEN {p} ELSE {}))

RInit == Init /\ hist = "" /\ woken = {}

RNext ==
  \/ \E p \in Procs : Park(p) /\ Step("Park", p)
  \/ \E r \in Readers : RAcq(r) /\ Step("RAcq", r)
  \/ \E w \in Writers : (WAcq(w) /\ Step("WAcq", w)) \/ (WXAcq(w) /\ Step("WXAcq", w))
  \/ CAcq /\ Step("CAcq", Closer)
  \/ CXAcq /\ Step("CXAcq", Closer)
  \/ /\ ~Urgent
     /\ \/ \E r \in Readers : (RCall(r) /\ Step("RCall", r)) \/ (RUnlock(r) /\ Step("RUnlock", r))
        \/ \E w \in Writers :
              \/ WCall(w) /\ Step("WCall", w)
              \/ WRollback(w) /\ Step("WRollback", w)
              \/ WPending(w) /\ Step("WPending", w)
              \/ WFail(w) /\ Step("WFail", w)
              \/ WFailClose(w) /\ Step("WFailClose", w)
              \/ WXCall(w) /\ Step("WXCall", w)
              \/ WSwitch(w) /\ Step("WSwitch", w)
              \/ WUnpend(w) /\ Step("WUnpend", w)
              \/ WDone(w) /\ Step("WDone", w)
        \/ CCall /\ Step("CCall", Closer)
        \/ CPending /\ Step("CPending", Closer)
        \/ CFinish /\ Step("CFinish", Closer)

RSpec == RInit /\ [][RNext]_<<vars, hist, woken>>

View == <<vars, woken>>
Emit == PrintT("@P " \o hist')
=============================================================================
