----------------------------- MODULE LockTrace -----------------------------
(***************************************************************************)
(* Trace specification for Lock.tla: decides whether executions recorded   *)
(* from the real File (goroutines gated at the verif hook points) are      *)
(* behaviours of Lock.tla.  Each line carries the action name, the process *)
(* and the lock state observed on the real object right after the step     *)
(* (sharedCount, pendingSet, holder of the reserved mutex).                *)
(***************************************************************************)
EXTENDS Lock, Json

VARIABLE l

Trace == ndJsonDeserialize("trace.ndjson")
Ev == Trace[l]

\* Observed lock state (only logged at stable points: no waiting goroutine can
\* proceed).  The identity of the holder of the reserved mutex can not be observed on
\* the real object, only whether it is held.
Observed(e) == "sh" \in DOMAIN e =>
                 /\ shared' = e.sh /\ pending' = e.pe /\ (reserved' # None) = e.res

Act(e) ==
  LET p == e.p IN
  CASE e.ev = "RCall"      -> p \in Readers /\ RCall(p)
    [] e.ev = "RAcq"       -> p \in Readers /\ RAcq(p)
    [] e.ev = "RUnlock"    -> p \in Readers /\ RUnlock(p)
    [] e.ev = "WCall"      -> p \in Writers /\ WCall(p)
    [] e.ev = "WAcq"       -> p \in Writers /\ WAcq(p)
    [] e.ev = "WRollback"  -> p \in Writers /\ WRollback(p)
    [] e.ev = "WPending"   -> p \in Writers /\ WPending(p)
    [] e.ev = "WFail"      -> p \in Writers /\ WFail(p)
    [] e.ev = "WFailClose" -> p \in Writers /\ WFailClose(p)
    [] e.ev = "WXCall"     -> p \in Writers /\ WXCall(p)
    [] e.ev = "WXAcq"      -> p \in Writers /\ WXAcq(p)
    [] e.ev = "WSwitch"    -> p \in Writers /\ WSwitch(p)
    [] e.ev = "WUnpend"    -> p \in Writers /\ WUnpend(p)
    [] e.ev = "WDone"      -> p \in Writers /\ WDone(p)
    [] e.ev = "CCall"      -> CCall
    [] e.ev = "CAcq"       -> CAcq
    [] e.ev = "CPending"   -> CPending
    [] e.ev = "CXAcq"      -> CXAcq
    [] e.ev = "CFinish"    -> CFinish
    [] e.ev = "Park"       -> Park(p)
    [] OTHER               -> FALSE

\* "Blocked p": the harness observed that p had not returned from its lock call
\* after the settle time.  Allowed only for a process that is waiting.
Blocked(e) == pc[e.p] \in WaitStates /\ UNCHANGED vars

TInit == Init /\ l = 1

TNext ==
  /\ l <= Len(Trace)
  /\ l' = l + 1
  /\ \/ Ev.ev = "Reset" /\ shared' = 0 /\ pending' = FALSE /\ reserved' = None
        /\ pc' = [p \in Procs |-> "idle"] /\ ops' = [p \in Procs |-> 0] /\ closed' = FALSE
        /\ parked' = [p \in Procs |-> FALSE]
     \/ Ev.ev = "Blocked" /\ Blocked(Ev)
     \/ Ev.ev = "Note" /\ UNCHANGED vars          \* end-of-batch marker of the harness
     \/ Ev.ev \notin {"Reset", "Blocked", "Note"} /\ Act(Ev) /\ Observed(Ev)

TSpec == TInit /\ [][TNext]_<<vars, l>>

Post == PrintT("@D " \o ToString(TLCGet("stats").diameter))
=============================================================================
