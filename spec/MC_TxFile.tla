----------------------------- MODULE MC_TxFile -----------------------------
EXTENDS TxFile
\* history / bound variables do not distinguish behaviours
View == <<cm, tx, rds, al, wm, hdr, lk, dur, pend, cd, inflight, maybe, ntx, nops>>
=============================================================================
