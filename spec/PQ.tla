--------------------------------- MODULE PQ ---------------------------------
(***************************************************************************)
(* Operational specification of the persistent queue (pq/writer.go,        *)
(* reader.go, ack.go, buffer.go) over an atomic transactional store with   *)
(* snapshot reads and a page budget (justified by C01/C02 on TxFile.tla).  *)
(*                                                                         *)
(* Events are byte strings framed by an HS byte size header; pages carry   *)
(* PS payload bytes and form a chain.  The layout is a pure function of    *)
(* the event sizes: a header is never split (if fewer than HS bytes remain *)
(* it moves to the next page), data spills over pages.                     *)
(*                                                                         *)
(* Producer: AppendEvent(size) buffers a complete event; Flush makes all        *)
(* buffered events durable in one transaction (or fails when the store is  *)
(* full, keeping the buffer).  Consumer: RBegin (snapshot), RNext, RDone;  *)
(* Ack(n) = plan in a read transaction + apply in a write transaction      *)
(* (a flush may commit in between); it frees every chain page before the   *)
(* first page that is the write page or holds the start of an event with   *)
(* id >= first un-ACKed id - 1.  Crash / reopen drop the buffer.           *)
(***************************************************************************)
EXTENDS Integers, Sequences, FiniteSets, TLC

CONSTANTS PS, HS,        \* payload bytes per page, bytes of an event header
          Sizes,         \* event sizes the producer may append
          MaxEvents,     \* bound on the number of events
          Capacity       \* pages the store can give to the queue

VARIABLES
  evs,        \* sizes of all events appended so far (buffered ones included)
  flushedN,   \* events durable
  ackedN,     \* events removed
  kept,       \* chain index of the first page still allocated (pages before are freed)
  rd,         \* reader [tx, snap, idx]
  delivered,  \* ids handed to the consumer, in order
  plan        \* ACK in progress: [n, keepFrom] (n = 0: none)

vars == <<evs, flushedN, ackedN, kept, rd, delivered, plan>>
NoPlan == [n |-> 0, keepFrom |-> 0]

HdrAfter(p) == IF PS - p[2] < HS THEN <<p[1] + 1, 0>> ELSE p
DataEnd(h, s) == LET o == h[2] + HS  r == PS - o IN
                 IF s <= r THEN <<h[1], o + s>>
                 ELSE LET s2 == s - r  full == (s2 - 1) \div PS IN <<h[1] + 1 + full, s2 - full * PS>>
RECURSIVE EndOf(_)
EndOf(k) == IF k = 0 THEN <<0, 0>> ELSE DataEnd(HdrAfter(EndOf(k - 1)), evs[k])
HdrPage(k) == HdrAfter(EndOf(k - 1))[1]      \* page holding the header of the k-th event (1-based)
TailPage(n) == IF n = 0 THEN 0 ELSE EndOf(n)[1]   \* page the writer appends to after n flushed events
PagesHeld(n, from) == IF n = 0 THEN 0 ELSE TailPage(n) - from + 1

\* collectFreePages: first chain page that has to be kept when everything before event id
\* endID (0-based) is ACKed, given n flushed events
FirstKept(endID, n) ==
  LET cand == {k \in kept..TailPage(n) :
                 \/ k = TailPage(n)
                 \/ \E i \in 1..n : HdrPage(i) = k /\ (i - 1) >= endID - 1}
  IN CHOOSE k \in cand : \A j \in cand : k <= j

Init ==
  /\ evs = <<>> /\ flushedN = 0 /\ ackedN = 0 /\ kept = 0
  /\ rd = [tx |-> FALSE, snap |-> 0, idx |-> 0] /\ delivered = <<>> /\ plan = NoPlan

AppendEvent(s) ==
  /\ Len(evs) < MaxEvents
  /\ evs' = Append(evs, s)
  /\ UNCHANGED <<flushedN, ackedN, kept, rd, delivered, plan>>

FlushOK ==
  /\ flushedN < Len(evs)
  /\ PagesHeld(Len(evs), kept) <= Capacity
  /\ flushedN' = Len(evs)
  /\ UNCHANGED <<evs, ackedN, kept, rd, delivered, plan>>

FlushFull ==      \* error: nothing changes, the buffer is kept
  /\ flushedN < Len(evs)
  /\ PagesHeld(Len(evs), kept) > Capacity
  /\ UNCHANGED vars

RBegin ==
  /\ ~rd.tx
  /\ rd' = [rd EXCEPT !.tx = TRUE, !.snap = flushedN]
  /\ UNCHANGED <<evs, flushedN, ackedN, kept, delivered, plan>>

RNext ==
  /\ rd.tx /\ rd.idx < rd.snap
  /\ HdrPage(rd.idx + 1) >= kept            \* the page it reads still exists (else: AckNeverFreesLive broken)
  /\ delivered' = Append(delivered, rd.idx)
  /\ rd' = [rd EXCEPT !.idx = @ + 1]
  /\ UNCHANGED <<evs, flushedN, ackedN, kept, plan>>

RDone ==
  /\ rd.tx
  /\ rd' = [rd EXCEPT !.tx = FALSE]
  /\ UNCHANGED <<evs, flushedN, ackedN, kept, delivered, plan>>

\* the consumer ACKs only what it has read
AckPlan(n) ==
  /\ plan = NoPlan /\ n >= 1 /\ ackedN + n <= rd.idx /\ ackedN + n <= flushedN
  /\ plan' = [n |-> n, keepFrom |-> FirstKept(ackedN + n, flushedN)]
  /\ UNCHANGED <<evs, flushedN, ackedN, kept, rd, delivered>>

AckApply ==
  /\ plan # NoPlan /\ ~rd.tx                 \* its commit waits for the reader
  /\ ackedN' = ackedN + plan.n
  /\ kept' = plan.keepFrom
  /\ plan' = NoPlan
  /\ UNCHANGED <<evs, flushedN, rd, delivered>>

\* crash or close+reopen: the buffer is lost, a new reader starts at the first un-ACKed event
Restart ==
  /\ plan = NoPlan
  /\ evs' = SubSeq(evs, 1, flushedN)
  /\ rd' = [tx |-> FALSE, snap |-> 0, idx |-> ackedN]
  /\ delivered' = SubSeq(delivered, 1, ackedN)     \* what was read but not ACKed will be read again
  /\ UNCHANGED <<flushedN, ackedN, kept, plan>>

Next ==
  \/ \E s \in Sizes : AppendEvent(s)
  \/ FlushOK \/ FlushFull \/ RBegin \/ RNext \/ RDone
  \/ \E n \in 1..MaxEvents : AckPlan(n)
  \/ AckApply \/ Restart

Spec == Init /\ [][Next]_vars

(***************************************************************************)
(* Properties                                                              *)
(***************************************************************************)
\* C05: events are delivered in order, each exactly once
Fifo == \A i \in 1..Len(delivered) : delivered[i] = i - 1

\* C06: nothing ACKed is delivered again; nothing un-ACKed is lost
NoRedelivery == rd.idx >= ackedN
Durable == ackedN <= flushedN /\ flushedN <= Len(evs)

\* C12/C13: ACK never frees the page of an un-ACKed event nor the page the writer appends to
AckNeverFreesLive ==
  /\ kept <= TailPage(flushedN)
  /\ \A i \in (ackedN + 1)..flushedN : HdrPage(i) >= kept

\* C12: the space held is bounded by the un-ACKed events plus the last ACKed one
SpaceBound ==
  flushedN > 0 =>
    TailPage(flushedN) - kept + 1 <= TailPage(flushedN) - (IF ackedN = 0 THEN 0 ELSE HdrPage(ackedN)) + 1

\* the reader can always make progress on what it sees (no event of its snapshot is gone)
ReaderPageExists == (rd.tx /\ rd.idx < rd.snap) => HdrPage(rd.idx + 1) >= kept
=============================================================================
