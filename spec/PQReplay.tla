------------------------------ MODULE PQReplay ------------------------------
(***************************************************************************)
(* Generator of replayable behaviours of PQ.tla with the real layout       *)
(* constants (PS = page size - 28, HS = 4): every transition is printed as *)
(* the path of queue calls leading to it, with what the specification      *)
(* predicts: the id and size of every delivered event, the number of       *)
(* pending events and the number of pages the queue holds after every      *)
(* flush, ACK and restart.  The harness executes each maximal path on a    *)
(* real queue and compares (and the recorded execution is judged by        *)
(* PQTrace.tla as well).                                                   *)
(*                                                                         *)
(* Sequential replay: an ACK is one call (plan and apply are consecutive);  *)
(* flush and ACK happen outside read transactions (their commits wait for  *)
(* the reader; those interleavings are the subject of C13); the            *)
(* file is unbounded (FlushFull is the subject of the fill/drain drivers   *)
(* of C12).  Restart = the process dies: the file is reopened without      *)
(* closing the queue, the write buffer is lost.                            *)
(***************************************************************************)
EXTENDS PQ

VARIABLE hist

L(s) == hist' = hist \o s \o ","
Held(n, k) == ToString(PagesHeld(n, k))

RInit == Init /\ hist = ""

PNext ==
  IF plan # NoPlan
    THEN AckApply /\ L("K" \o ToString(plan.n) \o ":" \o ToString(flushedN - ackedN') \o ":" \o Held(flushedN, kept'))
    ELSE
      \/ \E s \in Sizes : AppendEvent(s) /\ L("A" \o ToString(s))
      \/ ~rd.tx /\ FlushOK /\ L("F:" \o ToString(flushedN' - ackedN) \o ":" \o Held(flushedN', kept))
      \/ RBegin /\ L("RB")
      \/ RNext /\ L("RN" \o ToString(rd.idx) \o ":" \o ToString(evs[rd.idx + 1]))
      \/ rd.tx /\ rd.idx >= rd.snap /\ UNCHANGED vars /\ L("RE")     \* Reader.Next at the end of the snapshot: 0
      \/ RDone /\ L("RD")
      \/ \E n \in 1..MaxEvents : ~rd.tx /\ AckPlan(n) /\ hist' = hist
      \/ ~rd.tx /\ Restart /\ L("X:" \o ToString(flushedN - ackedN) \o ":" \o Held(flushedN, kept))

RSpec == RInit /\ [][PNext]_<<vars, hist>>

RView == vars
Emit == IF hist' # hist THEN PrintT("@P " \o hist') ELSE TRUE
=============================================================================
