------------------------------ MODULE PQTrace ------------------------------
(***************************************************************************)
(* Trace specification of the persistent queue (pq/*.go) over the          *)
(* transactional store.  It judges executions of the real Writer / Reader  *)
(* / ACK API recorded by the harness (sequential, with reopen and crash    *)
(* observations, and with producer and consumer on two goroutines).        *)
(*                                                                         *)
(* Linearisation: what a flush or an ACK makes visible is switched at the  *)
(* hook commit/switched of the store (under the exclusive lock), not at    *)
(* the return of the API call; the calls and callbacks are checked against *)
(* that.  Property checks are recorded as deviations <<line, prop, name>>  *)
(* (same scheme as TxTrace.tla).                                           *)
(*                                                                         *)
(* The page layout is a pure function of the event sizes (PQ.tla): ends[i] *)
(* is the raw end <<chain index, payload offset>> of event i.              *)
(***************************************************************************)
EXTENDS Integers, Sequences, FiniteSets, TLC, Json

CONSTANT None

VARIABLES
  evs,       \* sizes of the completed events; event id k (0-based) has size evs[k+1]
  ends,      \* ends[k+1]: raw end position of event k in the page chain
  base,      \* id of the first event of the page chain (0 unless the queue was drained completely)
  cur,       \* bytes of the event in progress
  flushedN,  \* number of events made durable and visible by flush transactions
  ackedN,    \* number of events removed by ACK transactions
  rd,        \* reader: [tx, snap, idx, inEv, left]
  cb,        \* callback totals [f, a]
  qtx,       \* queue transaction inside its commit: [kind, n]; mf / ma: state of a failed flush / ACK
             \* attempt whose header may have reached the disk (C08 allows a reopen to show it);
             \* pd: at the return of the producer's previous call every flushed event was ACKed
  cfg,       \* [ps, maxp]
  l, adev, devs, seen

vars == <<evs, ends, base, cur, flushedN, ackedN, rd, cb, qtx, cfg, l, adev, devs, seen>>

Trace == ndJsonDeserialize("trace.ndjson")
Ev == Trace[l]

F(p, name, cond) == IF cond THEN {} ELSE {<<p, name>>}
Min(a, b) == IF a < b THEN a ELSE b
HS == 4

(***************************************************************************)
(* Layout (see PQ.tla; validated against the real code)                    *)
(***************************************************************************)
PS == cfg.ps
HdrAfter(p) == IF PS - p[2] < HS THEN <<p[1] + 1, 0>> ELSE p      \* a header is never split
DataEnd(h, s) == LET o == h[2] + HS  r == PS - o IN                \* raw end; stays on a full page
                 IF s <= r THEN <<h[1], o + s>>
                 ELSE LET s2 == s - r  full == (s2 - 1) \div PS IN <<h[1] + 1 + full, s2 - full * PS>>
EndOf(k) == IF k = 0 THEN <<0, 0>> ELSE ends[k]                    \* raw end of the k-th event
HdrPage(k) == HdrAfter(EndOf(k - 1))[1]                            \* page of the header of the k-th event

\* C12: pages from the page holding the header of the most recent ACKed event (it is kept)
\* up to the page the writer appends to, plus one for the header of the event in progress
SpaceBound ==
  IF flushedN = 0 THEN 1
  ELSE LET first == IF ackedN = 0 THEN 0 ELSE HdrPage(ackedN)
           last == HdrAfter(EndOf(Len(evs)))[1]
       IN last - first + 2

(***************************************************************************)
(* Events                                                                  *)
(***************************************************************************)
Rd0 == [tx |-> FALSE, snap |-> 0, idx |-> 0, inEv |-> FALSE, left |-> 0]

QOpen(e) ==
  /\ evs' = <<>> /\ ends' = <<>> /\ base' = 0 /\ cur' = 0 /\ flushedN' = 0 /\ ackedN' = 0
  /\ rd' = Rd0 /\ cb' = [f |-> 0, a |-> 0] /\ qtx' = [kind |-> "", n |-> 0, mf |-> 0, ma |-> 0, pd |-> FALSE]
  /\ cfg' = [ps |-> e.ps, maxp |-> e.maxp]

Keep(vs) == UNCHANGED vs

WriteEv(e) ==
  /\ cur' = IF e.err = "" THEN cur + e.got ELSE cur
  /\ qtx' = [qtx EXCEPT !.pd = (ackedN = flushedN)]
  /\ UNCHANGED <<evs, ends, base, flushedN, ackedN, rd, cb, cfg>>

\* return of Writer.Next / Writer.Flush
ProducerEv(e) ==
  /\ qtx' = [qtx EXCEPT !.pd = (ackedN = flushedN)]
  /\ UNCHANGED <<evs, ends, base, cur, flushedN, ackedN, rd, cb, cfg>>

\* the producer declares the current event complete (logged before Writer.Next is called:
\* the flush that Next may trigger includes this event)
NextCall(e) ==
  /\ evs' = Append(evs, cur)
  /\ ends' = Append(ends, DataEnd(HdrAfter(EndOf(Len(evs))), cur))
  /\ cur' = 0
  /\ UNCHANGED <<base, flushedN, ackedN, rd, cb, qtx, cfg>>

NoChange == UNCHANGED <<evs, ends, base, cur, flushedN, ackedN, rd, cb, qtx, cfg>>

QTxBegin(e) ==
  /\ qtx' = [qtx EXCEPT !.kind = e.kind]
  /\ UNCHANGED <<evs, ends, base, cur, flushedN, ackedN, rd, cb, cfg>>

QSwitched(e) ==
  /\ flushedN' = IF e.kind = "flush" THEN Len(evs) ELSE flushedN
  /\ ackedN' = IF e.kind = "ack" THEN ackedN + qtx.n ELSE ackedN
  /\ qtx' = IF e.kind = "ack" THEN [qtx EXCEPT !.kind = "", !.n = 0, !.mf = 0, !.ma = 0]
            ELSE [qtx EXCEPT !.kind = "", !.mf = 0, !.ma = 0]
  /\ UNCHANGED <<evs, ends, base, cur, rd, cb, cfg>>

QTxFailed(e) ==
  /\ qtx' = [qtx EXCEPT !.kind = "",
                        !.mf = IF qtx.kind = "flush" THEN Len(evs) ELSE @,
                        !.ma = IF qtx.kind = "ack" THEN qtx.n ELSE @]
  /\ UNCHANGED <<evs, ends, base, cur, flushedN, ackedN, rd, cb, cfg>>

Flushed(e) ==
  /\ cb' = [cb EXCEPT !.f = @ + e.n]
  /\ UNCHANGED <<evs, ends, base, cur, flushedN, ackedN, rd, qtx, cfg>>

ACKCall(e) ==
  /\ qtx' = [qtx EXCEPT !.n = e.n]
  /\ UNCHANGED <<evs, ends, base, cur, flushedN, ackedN, rd, cb, cfg>>

ACKed(e) ==
  /\ cb' = [cb EXCEPT !.a = @ + e.n]
  /\ UNCHANGED <<evs, ends, base, cur, flushedN, ackedN, rd, qtx, cfg>>

RBegin(e) ==
  /\ rd' = IF e.err = "" THEN [rd EXCEPT !.tx = TRUE, !.snap = flushedN] ELSE rd
  /\ UNCHANGED <<evs, ends, base, cur, flushedN, ackedN, cb, qtx, cfg>>

RDone(e) ==
  /\ rd' = [rd EXCEPT !.tx = FALSE]
  /\ UNCHANGED <<evs, ends, base, cur, flushedN, ackedN, cb, qtx, cfg>>

\* position after skipping the unread rest of the current event
SkipIdx == IF rd.inEv THEN rd.idx + 1 ELSE rd.idx

RNext(e) ==
  /\ rd' = IF e.err # "" THEN rd
           ELSE IF e.size > 0 THEN [rd EXCEPT !.idx = SkipIdx, !.inEv = TRUE, !.left = e.size]
           ELSE [rd EXCEPT !.idx = SkipIdx, !.inEv = FALSE, !.left = 0]
  /\ UNCHANGED <<evs, ends, base, cur, flushedN, ackedN, cb, qtx, cfg>>

RRead(e) ==
  /\ rd' = IF rd.inEv /\ e.got > 0
             THEN IF rd.left - e.got <= 0 THEN [rd EXCEPT !.idx = @ + 1, !.inEv = FALSE, !.left = 0]
                                           ELSE [rd EXCEPT !.left = @ - e.got]
             ELSE rd
  /\ UNCHANGED <<evs, ends, base, cur, flushedN, ackedN, cb, qtx, cfg>>

\* Queue.Close: flushes the buffer; an unfinished event is dropped; if the flush fails
\* (file full) the completed but unflushed events are lost with the process' buffer
QClose(e) ==
  /\ evs' = SubSeq(evs, 1, flushedN) /\ ends' = SubSeq(ends, 1, flushedN)
  /\ cur' = 0
  /\ rd' = [Rd0 EXCEPT !.idx = ackedN]
  /\ UNCHANGED <<base, flushedN, ackedN, cb, qtx, cfg>>

(***************************************************************************)
(* Checks (evaluated in the state before the event)                        *)
(***************************************************************************)
PendingN == flushedN - ackedN

\* C12: "after space is freed the buffered events are flushed by a later call".  A producer call
\* may fail for lack of space only if there is something the consumer could still free or the
\* buffered data is large compared with the file: if every flushed event had been ACKed already
\* when the previous producer call returned (so during the whole failing call the queue held its
\* constant number of pages only) and what is buffered needs at most a quarter of the file, the
\* error is not explained by a full file.
NeededPages ==
  HdrAfter(EndOf(Len(evs)))[1] - (IF flushedN = 0 THEN 0 ELSE EndOf(flushedN)[1]) + 1 + (cur + HS) \div PS + 1
ErrorWhenDrained(e) ==
  F("C12", "ErrorWhenDrained",
    ~(/\ e.err # "" /\ e.full /\ ~e.inj /\ cfg.maxp >= 32
      /\ qtx.pd /\ ackedN = flushedN /\ qtx.kind = "" /\ qtx.mf = 0 /\ qtx.ma = 0
      /\ NeededPages * 4 <= cfg.maxp))

DrainOK(e, a, f) ==
  /\ a <= f /\ f <= Len(evs)
  /\ e.sizes = SubSeq(evs, a + 1, f)
  /\ (Len(e.sizes) > 0 => e.cid0 = a % 256)
  /\ e.pending = f - a

ADev(e) ==
  CASE e.ev = "Write" ->
         F("C05", "WriteAccepted", e.err = "" => e.got = e.n)
         \cup F("C12", "WriteErrorOnlyWhenFull", e.err # "" => (e.full /\ e.got = 0))
         \cup ErrorWhenDrained(e)
    [] e.ev = "NextCall" -> F("C05", "EventSize", e.size = cur)
    [] e.ev = "Next" -> F("C12", "NextErrorOnlyWhenFull", e.err # "" => e.full) \cup ErrorWhenDrained(e)
    [] e.ev = "Flush" ->
         F("C06", "FlushMakesDurable", e.err = "" => flushedN = Len(evs))
         \cup F("C12", "FlushErrorOnlyWhenFull", e.err # "" => e.full)
         \cup ErrorWhenDrained(e)
    [] e.ev = "QSwitched" ->
         F("C13", "SwitchKind", e.kind = qtx.kind /\ e.kind \in {"flush", "ack"})
         \cup F("C05", "AckWithinFlushed", e.kind = "ack" => ackedN + qtx.n <= flushedN)
    [] e.ev = "Flushed" -> F("C17", "FlushedCallback", cb.f + e.n = flushedN)
    [] e.ev = "ACKed" -> F("C17", "ACKedCallback", cb.a + e.n = ackedN)
    [] e.ev = "ACK" ->
         \* C12: ACK succeeds (also on a full file) iff 0 < n <= pending; C15: more than pending is an error
         F("C12", "AckResult",
             IF e.n = 0 THEN e.err = ""
             ELSE IF e.err = "" THEN qtx.n = 0            \* it went through QSwitched(ack)
             ELSE e.n > PendingN /\ qtx.n = e.n)
    [] e.ev = "RNext" ->
         F("C05", "Fifo", e.err = "" /\ rd.tx /\
              (IF SkipIdx < rd.snap /\ SkipIdx < flushedN
                 THEN e.size = evs[SkipIdx + 1]
                 ELSE e.size = 0))
         \cup F("C06", "NoRedelivery", e.size > 0 => SkipIdx >= ackedN)
    [] e.ev = "RRead" ->
         F("C05", "ReadBytes", e.err = "" /\
              (IF rd.inEv /\ rd.left > 0
                 THEN e.got = Min(e.n, rd.left) /\ e.ok /\ e.cid = rd.idx % 256
                 ELSE e.got = 0))
    [] e.ev = "Available" -> F("C17", "Available", e.err = "" /\ e.n = rd.snap - rd.idx)
    [] e.ev = "Counters" ->
         F("C17", "PendingActive", e.err = "" /\ e.pending = PendingN /\ e.active = PendingN)
         \cup F("C12", "SpaceBound", e.inuse <= SpaceBound /\ e.data <= SpaceBound + 1)
         \cup F("C12", "ExtentBound", cfg.maxp > 0 => e.extent <= cfg.maxp * (cfg.ps + 28))
    [] e.ev = "QClose" -> F("C06", "CloseFlushes", IF e.err = "" THEN flushedN = Len(evs) ELSE e.full)
    [] e.ev = "QReopen" -> F("C06", "ReopenPending", e.err = "" /\ e.pending = PendingN)
    [] e.ev = "CrashDrain" ->
         \* C06: exactly flushed minus ACKed, or that with the one transaction in its commit
         \* applied completely
         F("C06", "CrashDrain", e.ok /\
              \/ DrainOK(e, ackedN, flushedN)
              \/ qtx.kind = "flush" /\ DrainOK(e, ackedN, Len(evs))
              \/ qtx.kind = "ack" /\ DrainOK(e, ackedN + qtx.n, flushedN)
              \/ qtx.mf > 0 /\ DrainOK(e, ackedN, qtx.mf)
              \/ qtx.ma > 0 /\ DrainOK(e, ackedN + qtx.ma, flushedN))
    [] e.ev \in {"CrashFailed", "QOpenFailed"} -> {<<"C06", e.ev>>}
    \* the driver found the queue empty (everything ACKed), only a few small events buffered, and the
    \* flush still fails for lack of space
    [] e.ev = "StuckAfterDrain" -> {<<"C12", "FlushAfterDrain">>}
    [] OTHER -> {}

Act(e) ==
  CASE e.ev = "QOpen" -> QOpen(e)
    [] e.ev = "Write" -> WriteEv(e)
    [] e.ev = "NextCall" -> NextCall(e)
    [] e.ev = "QTxBegin" -> QTxBegin(e)
    [] e.ev = "QSwitched" -> QSwitched(e)
    [] e.ev = "QTxFailed" -> QTxFailed(e)
    [] e.ev = "Flushed" -> Flushed(e)
    [] e.ev = "ACKCall" -> ACKCall(e)
    [] e.ev = "ACKed" -> ACKed(e)
    [] e.ev = "ACK" -> /\ qtx' = [qtx EXCEPT !.n = 0]
                       /\ UNCHANGED <<evs, ends, base, cur, flushedN, ackedN, rd, cb, cfg>>
    [] e.ev = "RBegin" -> RBegin(e)
    [] e.ev = "RDone" -> RDone(e)
    [] e.ev = "RNext" -> RNext(e)
    [] e.ev = "RRead" -> RRead(e)
    [] e.ev = "QClose" -> QClose(e)
    [] e.ev = "QAbandon" -> QClose(e)      \* the process died: the buffer is lost (no flush is owed)
    [] e.ev \in {"Next", "Flush"} -> ProducerEv(e)
    [] e.ev \in {"StuckAfterDrain", "Available", "Counters", "QReopen", "CrashDrain", "CrashFailed",
                 "QOpenFailed", "IO", "Note"} -> NoChange
    [] OTHER -> FALSE

TInit ==
  /\ evs = <<>> /\ ends = <<>> /\ base = 0 /\ cur = 0 /\ flushedN = 0 /\ ackedN = 0
  /\ rd = Rd0 /\ cb = [f |-> 0, a |-> 0] /\ qtx = [kind |-> "", n |-> 0, mf |-> 0, ma |-> 0, pd |-> FALSE]
  /\ cfg = [ps |-> 996, maxp |-> 0]
  /\ l = 1 /\ adev = {} /\ devs = {} /\ seen = {}
  /\ TLCSet(1, {})

TNext ==
  /\ l <= Len(Trace)
  /\ l' = l + 1
  /\ adev' = IF Ev.ev = "Reset" THEN {} ELSE ADev(Ev)
  /\ IF Ev.ev = "Reset" THEN QOpen([ps |-> 996, maxp |-> 0]) ELSE Act(Ev)
  /\ LET act == {<<l, d[1], d[2]>> : d \in adev' \ (IF Ev.ev = "Reset" THEN {} ELSE seen)} IN
     /\ seen' = IF Ev.ev = "Reset" THEN {} ELSE seen \cup adev'
     /\ devs' = IF act = {} THEN devs ELSE devs \cup act
     /\ IF act = {} THEN TRUE ELSE TLCSet(1, devs')

TSpec == TInit /\ [][TNext]_vars

Post == /\ PrintT("@D " \o ToString(TLCGet("stats").diameter))
        /\ PrintT("@V " \o ToString(TLCGet(1)))
=============================================================================
