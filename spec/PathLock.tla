------------------------------ MODULE PathLock ------------------------------
(***************************************************************************)
(* The path lock of a file (file.go: Open / File.Close, internal/vfs/osfs: *)
(* lock file + flock).  Handles open the same path; at most one of them    *)
(* holds the file at any time.                                             *)
(*   Open      : plain open - succeeds iff nobody holds the path, else     *)
(*               fails with a lock error                                   *)
(*   OpenWait  : open with FlagWaitLock - blocks while somebody holds the  *)
(*               path (Call / Acq as in Lock.tla)                          *)
(*   OpenBad   : an open that fails for another reason (invalid options,   *)
(*               both headers damaged, I/O failure while initialising); if *)
(*               it got the lock it has released it when it returns        *)
(*   Close     : releases the path                                         *)
(***************************************************************************)
EXTENDS Integers, FiniteSets, TLC

CONSTANTS Handles, None, MaxOps

VARIABLES st,      \* st[h] \in {"closed", "open", "waiting"}
          holder,  \* handle holding the path lock, or None
          ops

vars == <<st, holder, ops>>

Causes == {"options", "headers", "io"}

Init == st = [h \in Handles |-> "closed"] /\ holder = None /\ ops = 0

Bump == ops' = ops + 1 /\ ops < MaxOps

\* result of a plain open in the current state
OpenResult == IF holder = None THEN "ok" ELSE "lockfailed"

Open(h) ==
  /\ st[h] = "closed" /\ Bump
  /\ IF holder = None THEN st' = [st EXCEPT ![h] = "open"] /\ holder' = h
                      ELSE UNCHANGED <<st, holder>>

OpenWaitCall(h) ==
  /\ st[h] = "closed" /\ Bump
  /\ st' = [st EXCEPT ![h] = "waiting"] /\ UNCHANGED holder

OpenWaitAcq(h) ==
  /\ st[h] = "waiting" /\ holder = None
  /\ st' = [st EXCEPT ![h] = "open"] /\ holder' = h /\ UNCHANGED ops

\* a failing open: lock error if the path is held, else the other cause; nothing is kept
OpenBad(h, c) ==
  /\ st[h] = "closed" /\ Bump
  /\ UNCHANGED <<st, holder>>

Close(h) ==
  /\ st[h] = "open" /\ Bump
  /\ st' = [st EXCEPT ![h] = "closed"] /\ holder' = None

Next == \E h \in Handles : Open(h) \/ OpenWaitCall(h) \/ OpenWaitAcq(h) \/ Close(h) \/ \E c \in Causes : OpenBad(h, c)

Spec == Init /\ [][Next]_vars /\ \A h \in Handles : WF_vars(OpenWaitAcq(h))

AtMostOneOpen == Cardinality({h \in Handles : st[h] = "open"}) <= 1
HolderExact == \A h \in Handles : (st[h] = "open") <=> (holder = h)
\* nothing open => the path can be opened (the lock has been released by every Close and by
\* every failed open)
FreeWhenClosed == (\A h \in Handles : st[h] # "open") => holder = None
=============================================================================
