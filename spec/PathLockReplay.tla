--------------------------- MODULE PathLockReplay ---------------------------
(* Generator: one path per transition (see LockReplay.tla); a waiting open  *)
(* acquires as soon as the path is free (urgent).  "woken" is a ghost so    *)
(* that acquiring after having waited is a transition of its own.           *)
EXTENDS PathLock, Sequences
VARIABLES hist, after   \* after: what happened last to the path ("", "close", "bad:<cause>")
Urgent == \E h \in Handles : st[h] = "waiting" /\ holder = None
Res == IF holder = None THEN "ok" ELSE "lockfailed"
Step(a, h, r) == hist' = hist \o a \o ":" \o h \o ":" \o r \o ","
RInit == Init /\ hist = "" /\ after = ""
RNext ==
  \/ \E h \in Handles : OpenWaitAcq(h) /\ Step("Acq", h, "ok") /\ after' = "acq"
  \/ /\ ~Urgent
     /\ \E h \in Handles :
          \/ Open(h) /\ Step("Open", h, Res) /\ after' = "open"
          \/ /\ \A g \in Handles : st[g] # "waiting"       \* one waiter at a time: which waiter wins is not determined
             /\ OpenWaitCall(h) /\ Step("WaitCall", h, IF holder = None THEN "free" ELSE "held") /\ after' = after
          \/ Close(h) /\ Step("Close", h, "ok") /\ after' = "close"
          \/ \E c \in Causes : OpenBad(h, c) /\ Step("Bad-" \o c, h, Res) /\ after' = "bad-" \o c
RSpec == RInit /\ [][RNext]_<<vars, hist, after>>
View == <<st, holder, after>>
Emit == PrintT("@P " \o hist')
=============================================================================
