--------------------------- MODULE PathLockReplay ---------------------------
(* Generator: one path per transition (see LockReplay.tla); a waiting open  *)
(* acquires as soon as the path is free (urgent).  "woken" is a ghost so    *)
(* that acquiring after having waited is a transition of its own.           *)
EXTENDS PathLock, Sequences
VARIABLES hist, after   \* after: the last two things that happened to the path (ghost, part of the view: e.g. an
                        \* open after "a waiter acquired after the holder closed" is a transition of its own)
Urgent == \E h \in Handles : st[h] = "waiting" /\ holder = None
Res == IF holder = None THEN "ok" ELSE "lockfailed"
Step(a, h, r) == hist' = hist \o a \o ":" \o h \o ":" \o r \o ","
RInit == Init /\ hist = "" /\ after = <<"", "">>
Then(x) == after' = <<after[2], x>>
RNext ==
  \/ \E h \in Handles : OpenWaitAcq(h) /\ Step("Acq", h, "ok") /\ Then("acq")
  \/ /\ ~Urgent
     /\ \E h \in Handles :
          \/ Open(h) /\ Step("Open", h, Res) /\ Then("open-" \o Res)
          \/ Open(h) /\ Step("OpenRO", h, Res) /\ Then("openro-" \o Res)   \* Options.Readonly: still exclusive
          \/ /\ \A g \in Handles : st[g] # "waiting"       \* one waiter at a time: which waiter wins is not determined
             /\ OpenWaitCall(h) /\ Step("WaitCall", h, IF holder = None THEN "free" ELSE "held")
             /\ Then(IF holder = None THEN "wait-free" ELSE "wait-held")
          \/ Close(h) /\ Step("Close", h, "ok") /\ Then("close")
          \/ \E c \in Causes : OpenBad(h, c) /\ Step("Bad-" \o c, h, Res) /\ Then("bad-" \o c)
RSpec == RInit /\ [][RNext]_<<vars, hist, after>>
View == <<st, holder, after>>
Emit == PrintT("@P " \o hist')
=============================================================================
