---------------------------- MODULE PathLockTrace ----------------------------
(* Judges the results of real Open / Close calls on one path against        *)
(* PathLock.tla: every line carries the action, the handle and the observed *)
(* result ("ok", "lockfailed", "error" = failed for another reason,         *)
(* "blocked" / "returned" for a waiting open, "hang", "panic").             *)
EXTENDS PathLock, Sequences, Json
VARIABLES l, devs
Trace == ndJsonDeserialize("trace.ndjson")
Ev == Trace[l]

Expected(e) ==
  CASE e.a \in {"Open", "OpenRO"} -> IF holder = None THEN "ok" ELSE "lockfailed"
    [] e.a = "WaitCall" -> IF holder = None THEN "returned" ELSE "blocked"
    [] e.a = "Acq" -> "returned"
    [] e.a = "Close" -> "ok"
    [] e.a = "Bad" -> IF holder = None \/ e.cause = "options" THEN "error" ELSE "lockfailed"   \* options are validated first
    [] OTHER -> "?"

Apply(e) ==
  CASE e.a \in {"Open", "OpenRO"} -> Open(e.h)
    [] e.a = "WaitCall" -> IF holder = None
                             THEN st' = [st EXCEPT ![e.h] = "open"] /\ holder' = e.h /\ ops' = ops + 1
                             ELSE OpenWaitCall(e.h)
    [] e.a = "Acq" -> OpenWaitAcq(e.h)
    [] e.a = "Close" -> Close(e.h)
    [] e.a = "Bad" -> OpenBad(e.h, "io")
    [] OTHER -> FALSE

TInit == Init /\ l = 1 /\ devs = {} /\ TLCSet(1, {})
TNext ==
  /\ l <= Len(Trace)
  /\ l' = l + 1
  /\ IF Ev.ev = "Reset" THEN st' = [h \in Handles |-> "closed"] /\ holder' = None /\ ops' = 0 /\ devs' = devs
     ELSE IF Ev.ev = "Path"
     THEN /\ Apply(Ev)
          /\ devs' = IF Ev.res = Expected(Ev) THEN devs
                     ELSE devs \cup {<<l, "C18", IF Ev.res \in {"hang", "panic"} THEN "OpenHangsOrPanics"
                                                  ELSE IF Ev.res = "ok" /\ holder # None THEN "OpenedTwice"
                                                  ELSE IF Ev.res = "returned" /\ holder # None THEN "OpenedTwice"
                                                  ELSE "LockNotReleased">>}
     ELSE UNCHANGED vars /\ devs' = devs
  /\ IF devs' # devs THEN TLCSet(1, devs') ELSE TRUE
TSpec == TInit /\ [][TNext]_<<vars, l, devs>>
Post == /\ PrintT("@D " \o ToString(TLCGet("stats").diameter))
        /\ PrintT("@V " \o ToString(TLCGet(1)))
=============================================================================
