------------------------------- MODULE TxCore -------------------------------
(***************************************************************************)
(* State and named properties of the go-txfile store, shared by            *)
(*   TxFile.tla  - operational specification (explorer), and               *)
(*   TxTrace.tla - trace specification (judge of real executions).         *)
(*                                                                         *)
(* The state has three layers:                                             *)
(*  logical  : cm (committed model visible to new transactions), tx (the   *)
(*             running write transaction), rds (snapshots of readers)      *)
(*  in-memory: al (allocator partition), wm (overwrite mapping), hdr       *)
(*             (active header), lk (lock), stats                           *)
(*  disk     : dur (durable page contents), pend (writes since the last    *)
(*             completed sync), and the ghosts cd / inflight / maybe used  *)
(*             by the crash properties                                     *)
(* Logical page contents (cm, tx, rds) are <<v1, v2, v3, v4>>: one version *)
(* stamp per quarter of the page (U = never written, matches anything;     *)
(* 0 = zero bytes).  Disk page contents are abstract records:              *)
(*   data page   [k |-> "D", q |-> <<v1, v2, v3, v4>>]                     *)
(*   header      [k |-> "H", ok, txid, root, fl, wal, dEnd, mEnd, mTot, max]*)
(*   freelist    [k |-> "F", next, d, m]   (sets of free data / meta pages)*)
(*   wal mapping [k |-> "W", next, map]    (sequence of <<id, walpage>>)   *)
(*   [k |-> "A"] absent (beyond the durable extent), [k |-> "X"] torn      *)
(*   header write, [k |-> "G"] garbage                                     *)
(***************************************************************************)
EXTENDS Integers, FiniteSets, Sequences, TLC

CONSTANTS None

VARIABLES cm, tx, rds, al, wm, hdr, lk, stats, dur, pend, cd, inflight, maybe

coreVars == <<cm, tx, rds, al, wm, hdr, lk, stats, dur, pend, cd, inflight, maybe>>

U == -1                          \* undefined quarter (never written): matches anything
UndefPage == <<U, U, U, U>>
ZeroPage == <<0, 0, 0, 0>>

Max(a, b) == IF a > b THEN a ELSE b
Min(a, b) == IF a < b THEN a ELSE b
Range(f) == {f[x] : x \in DOMAIN f}

EmptyFn == [x \in {} |-> 0]
Restrict(f, S) == [x \in S |-> f[x]]
f1 ++ f2 == [x \in (DOMAIN f1) \cup (DOMAIN f2) |-> IF x \in DOMAIN f2 THEN f2[x] ELSE f1[x]]

(***************************************************************************)
(* Logical model                                                           *)
(***************************************************************************)
Live == DOMAIN cm.pages

\* content the running write transaction sees for page id
TxView(id) ==
  IF id \in DOMAIN tx.w THEN tx.w[id]
  ELSE IF id \in tx.new THEN ZeroPage      \* Load() of a fresh page yields a zeroed buffer
  ELSE cm.pages[id]

TxLive == (Live \ tx.freed) \cup (tx.new \ tx.freed)

\* the state a successful commit of tx produces
CommitResult ==
  LET keep == Live \ tx.freed
      fresh == tx.new \ tx.freed
  IN [root  |-> tx.root,
      pages |-> [p \in keep \cup fresh |->
                   IF p \in DOMAIN tx.w THEN tx.w[p]
                   ELSE IF p \in keep THEN cm.pages[p] ELSE UndefPage]]

\* partial / full SetBytes: the first q quarters get version v
SetQuarters(base, q, v) == [i \in 1..4 |-> IF i <= q THEN v ELSE base[i]]

MatchPage(got, want) == \A i \in 1..4 : want[i] = U \/ got[i] = want[i]

(***************************************************************************)
(* In-memory file state                                                    *)
(***************************************************************************)
WalPages == Range(wm.map)
MetaUsed == al.flp \cup wm.pgs \cup WalPages
End == Max(al.dEnd, al.mEnd)

Disjoint(S, T) == S \cap T = {}

\* C04: nobody owns a page twice
Ownership ==
  /\ Disjoint(al.dFree, al.mFree)
  /\ Disjoint(al.dFree, MetaUsed) /\ Disjoint(al.mFree, MetaUsed)
  /\ Disjoint(Live, al.dFree) /\ Disjoint(Live, al.mFree) /\ Disjoint(Live, MetaUsed)
  /\ Disjoint(al.flp, wm.pgs) /\ Disjoint(al.flp, WalPages) /\ Disjoint(wm.pgs, WalPages)
  /\ \A p \in Live \cup al.dFree : 2 <= p /\ p < al.dEnd
  /\ \A p \in al.mFree \cup MetaUsed : 2 <= p /\ p < End
  /\ Cardinality(WalPages) = Cardinality(DOMAIN wm.map)          \* mapping is injective
  /\ DOMAIN wm.map \subseteq Live
  /\ tx # None =>
       /\ Disjoint(tx.new \ tx.freed, Live)
       /\ Disjoint(tx.new \ tx.freed, al.dFree) /\ Disjoint(tx.new \ tx.freed, al.mFree)
       /\ Disjoint(tx.new \ tx.freed, MetaUsed)
       \* pages of the committed state freed by the transaction are not handed out again
       /\ Disjoint(tx.freed \cap Live, al.dFree)
       /\ Disjoint(tx.freed \cap Live, al.mFree)

\* between transactions every page below the end markers has exactly one owner
Quiescent == tx = None
\* (pages in [dEnd, mEnd) that nobody owns are fine: the meta end marker is a high-water
\* mark and the data area grows into that gap again)
Partition ==
  Quiescent => (2..(al.dEnd - 1)) \subseteq Live \cup al.dFree \cup al.mFree \cup MetaUsed

MetaAccounting ==
  Quiescent => al.mTot = Cardinality(al.mFree) + Cardinality(MetaUsed)

\* C11: bounded file, no overflow in use: allocatable + live + meta + 2 headers = max
Avail == Cardinality(al.dFree) + (IF al.dEnd < al.max THEN al.max - al.dEnd ELSE 0)
Bounded == al.max > 0
InLimits == End <= al.max
Conservation ==
  (Quiescent /\ Bounded /\ InLimits) => Avail + Cardinality(Live) + al.mTot + 2 = al.max

\* (C11 speaks about files on which no transaction enabled the overflow area: pages taken
\* from the overflow area are subtracted from DataAllocated by the code although they never
\* were data pages - observed, outside the listed properties)
StatsTruthful ==
  (Quiescent /\ ~stats.ovf) =>
               /\ stats.data = Cardinality(Live)
               /\ stats.meta = al.mTot
               /\ stats.metaUsed = al.mTot - Cardinality(al.mFree)

\* C11: a bounded file on which no transaction ever enabled the overflow area never extends
\* beyond its maximum size (stats.fsize: current extent of the backing file, stats.maxb: the
\* configured maximum size, both in bytes)
ExtentBound == (Bounded /\ ~stats.ovf) => stats.fsize <= stats.maxb

TypeTrivial == lk.sh >= 0

\* the in-memory header agrees with the allocator and the model
HeaderAgrees ==
  Quiescent => /\ hdr.root = cm.root
               /\ hdr.dEnd = al.dEnd /\ hdr.mEnd = al.mEnd /\ hdr.mTot = al.mTot

\* C09 at the file level: nothing open => nothing held
IdleLockFree == (Quiescent /\ DOMAIN rds = {}) => (lk.sh = 0 /\ ~lk.pe /\ ~lk.res)
SharedMatchesReaders == lk.sh = Cardinality(DOMAIN rds)

(***************************************************************************)
(* Disk: recovery as a function of a page image                            *)
(***************************************************************************)
Put(d, id, c) == [x \in (DOMAIN d) \cup {id} |-> IF x = id THEN c ELSE d[x]]
RECURSIVE Overlay(_, _)
Overlay(d, s) == IF s = <<>> THEN d ELSE Overlay(Put(d, s[1][1], s[1][2]), Tail(s))
Vol == Overlay(dur, pend)

Absent == [k |-> "A"]
At(img, id) == IF id \in DOMAIN img THEN img[id] ELSE Absent

IsHdr(c) == c.k = "H" /\ c.ok
\* serial number arithmetic is exercised on real bytes (C16); txids here are small
Newer(a, b) == a > b

\* which slot wins: 0, 1 or 2 (= none)
Pick(h0, h1) ==
  IF IsHdr(h0) /\ IsHdr(h1) THEN (IF h0.txid >= h1.txid THEN 0 ELSE 1)
  ELSE IF IsHdr(h0) THEN 0 ELSE IF IsHdr(h1) THEN 1 ELSE 2

\* walk a list-page chain; result [ok, pgs, items]
RECURSIVE Chain(_, _, _, _)
Chain(img, root, kind, fuel) ==
  IF root = 0 THEN [ok |-> TRUE, pgs |-> {}, cs |-> <<>>]
  ELSE IF fuel = 0 \/ At(img, root).k # kind THEN [ok |-> FALSE, pgs |-> {}, cs |-> <<>>]
  ELSE LET rest == Chain(img, img[root].next, kind, fuel - 1)
       IN [ok |-> rest.ok /\ root \notin rest.pgs, pgs |-> {root} \cup rest.pgs, cs |-> <<img[root]>> \o rest.cs]

SeqToMap(s) == [k \in {s[i][1] : i \in 1..Len(s)} |-> (CHOOSE i \in 1..Len(s) : s[i][1] = k /\ \A j \in i+1..Len(s) : s[j][1] # k) ]
MapOf(s) == LET ix == SeqToMap(s) IN [k \in DOMAIN ix |-> s[ix[k]][2]]

RECURSIVE Flatten(_)
Flatten(ss) == IF ss = <<>> THEN <<>> ELSE Head(ss) \o Flatten(Tail(ss))

\* the file state described by header h in image img
Rebuild(img, h) ==
  LET w == Chain(img, h.wal, "W", 64)
      f == Chain(img, h.fl, "F", 64)
  IN IF ~w.ok \/ ~f.ok THEN [ok |-> FALSE]
     ELSE LET map == MapOf(Flatten([i \in 1..Len(w.cs) |-> w.cs[i].map]))
              dF == UNION {f.cs[i].d : i \in 1..Len(f.cs)}
              mF == UNION {f.cs[i].m : i \in 1..Len(f.cs)}
          IN [ok |-> TRUE, map |-> map, wpg |-> w.pgs, fpg |-> f.pgs, dFree |-> dF, mFree |-> mF,
              live |-> (2..(h.dEnd - 1)) \ (dF \cup mF \cup w.pgs \cup f.pgs \cup Range(map))]

Phys(map, id) == IF id \in DOMAIN map THEN map[id] ELSE id

PgChoices(id) == {At(dur, id)} \cup {pend[i][2] : i \in {j \in 1..Len(pend) : pend[j][1] = id}}
Torn == [k |-> "X"]
HdrChoices(s) == PgChoices(s) \cup (IF \E i \in 1..Len(pend) : pend[i][1] = s THEN {Torn} ELSE {})
Ambiguous(id) == Cardinality(PgChoices(id)) > 1

\* Does every crash image in which header h wins show expected state E?
\* (all choices for the pages reachable from h; list pages must be unambiguous)
ShowsState(h, E) ==
  LET rb == Rebuild(dur, h) IN
  /\ rb.ok
  /\ \A p \in rb.wpg \cup rb.fpg : ~Ambiguous(p)
  /\ h.root = E.root
  /\ rb.live = DOMAIN E.pages
  /\ \A p \in rb.live : \A c \in PgChoices(Phys(rb.map, p)) :
        E.pages[p] = UndefPage \/ (c.k = "D" /\ MatchPage(c.q, E.pages[p]))

Allowed == {cd} \cup (IF inflight = None THEN {} ELSE {inflight}) \cup maybe

\* C01 / C08: whatever subset of the un-synced writes reaches the disk, recovery shows the
\* last committed state or, while a commit is in progress, that commit's complete state
\* (or, C08, the complete state of a failed attempt whose header may have reached the disk)
CrashSafe ==
  \A h0 \in HdrChoices(0), h1 \in HdrChoices(1) :
     LET s == Pick(h0, h1) IN
     /\ s # 2
     /\ LET h == IF s = 0 THEN h0 ELSE h1 IN \E E \in Allowed : ShowsState(h, E)

\* C10: what is on disk (volatile view) describes exactly the in-memory state
ReopenStable ==
  Quiescent =>
    LET v == Vol  s == Pick(At(v, 0), At(v, 1)) IN
    /\ s # 2
    /\ LET h == v[s]  rb == Rebuild(v, v[s]) IN
       /\ rb.ok
       /\ h.root = cm.root /\ h.dEnd = al.dEnd /\ h.mEnd = al.mEnd /\ h.mTot = al.mTot
       /\ rb.map = wm.map /\ rb.wpg = wm.pgs /\ rb.fpg = al.flp
       /\ rb.dFree = al.dFree /\ rb.mFree = al.mFree
       /\ rb.live = Live
       /\ \A p \in Live : LET c == At(v, Phys(rb.map, p)) IN
                             cm.pages[p] = UndefPage \/ (c.k = "D" /\ MatchPage(c.q, cm.pages[p]))
=============================================================================
