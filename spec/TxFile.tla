------------------------------- MODULE TxFile -------------------------------
(***************************************************************************)
(* Operational specification of the go-txfile store (tx.go, page.go,       *)
(* alloc.go, wal.go, file.go, layout.go) over the state of TxCore.tla:     *)
(* shadow paging with an overwrite mapping (WAL), two header slots, data   *)
(* and meta area with deferred frees, and the commit protocol as a         *)
(* sequence of separately interruptible steps:                             *)
(*                                                                         *)
(*   body   : Alloc, Write (new page: in place; committed page: to a WAL   *)
(*            page taken from the meta area; page that already has a WAL   *)
(*            page: back to its original location), Free, Flush, SetRoot   *)
(*   commit : CFlush -> CPrepare (new mapping, checkpoint at WALLimit,     *)
(*            old list pages freed) -> CAllocMeta (list pages from the end *)
(*            of the meta freelist, freed pages merged) -> CSerialize ->   *)
(*            CSync1 -> CHeader (slot 1 - active, txid + 1) -> CSync2 ->   *)
(*            CSwitch (in-memory state, needs exclusivity) -> CDone        *)
(*   abort  : Rollback at any point before CSwitch                         *)
(*   crash  : CrashRecover restarts from the durable image or from the     *)
(*            image with every pending write persisted (all other subsets  *)
(*            are covered by the invariant CrashSafe in every state)       *)
(*   overflow: a transaction that enabled the overflow area may take meta  *)
(*            pages beyond the limit of a full file; free ones are         *)
(*            released again from the end of the file by later commits     *)
(*   reader : BeginRead / EndRead around the writer's steps                *)
(*   resize : open with FlagUpdMaxSize (file.go growFile/shrinkFile): an   *)
(*            internal transaction that writes a header with the new limit *)
(*            (ResizeHdr, ResizeSync), after a shrink followed by a forced *)
(*            allocator commit that releases free pages beyond the limit   *)
(*            from the end of the file; every later commit releases too    *)
(*            (allocator.fileCommitAlloc / releaseOverflowPages)           *)
(*                                                                         *)
(* Allocation policy: lowest free page first for data and WAL pages,       *)
(* highest first for list pages, the meta area grows by GrowBy pages taken *)
(* from the data area (the properties do not depend on the policy; the     *)
(* trace specification accepts any).                                       *)
(***************************************************************************)
EXTENDS TxCore

CONSTANTS NP,        \* page ids are 0 .. NP-1 (0, 1: headers)
          MaxPages,  \* file limit in pages (NP for "unbounded" within the model)
          InitMeta,  \* pages of the meta area created with the file (0 or >= 2)
          WALLimit,  \* checkpoint when the mapping would reach this size
          GrowBy,    \* pages moved into the meta area when it is exhausted
          MaxTx, MaxOps, Readers,
          AbortAfterHeader,  \* allow an abort after the header write was issued (a failed final sync)
          Sizes,             \* limits an open with FlagUpdMaxSize may set ({} = the limit never changes)
          Overflow           \* transactions may enable the overflow area (TxOptions.EnableOverflowArea)

VARIABLES ntx, nops, ver    \* bounds and the version counter for page contents

xvars == <<coreVars, ntx, nops, ver>>

Page(v) == <<v, v, v, v>>
Data(v) == [k |-> "D", q |-> Page(v)]
HdrRec(slot, txid, root, fl, wal, a) ==
  [k |-> "H", ok |-> TRUE, txid |-> txid, root |-> root, fl |-> fl, wal |-> wal,
   dEnd |-> a.dEnd, mEnd |-> a.mEnd, mTot |-> a.mTot, max |-> a.max]

MinOf(S) == CHOOSE x \in S : \A y \in S : x <= y
MaxOf(S) == CHOOSE x \in S : \A y \in S : x >= y

(***************************************************************************)
(* Initial file (initNewFile)                                              *)
(***************************************************************************)
Al0 == IF InitMeta = 0
       THEN [dFree |-> {}, mFree |-> {}, dEnd |-> 2, mEnd |-> 2, mTot |-> 0, flp |-> {}, max |-> MaxPages,
             da |-> {}, mv |-> {}, ov |-> {}]
       ELSE [dFree |-> {}, mFree |-> 3..(2 + InitMeta - 1), dEnd |-> 2 + InitMeta, mEnd |-> 2 + InitMeta,
             mTot |-> InitMeta, flp |-> {2}, max |-> MaxPages, da |-> {}, mv |-> {}, ov |-> {}]
Fl0 == IF InitMeta = 0 THEN 0 ELSE 2

Init ==
  /\ cm = [root |-> 0, pages |-> EmptyFn] /\ cd = cm /\ tx = None /\ rds = EmptyFn
  /\ al = Al0 /\ wm = [map |-> EmptyFn, pgs |-> {}]
  /\ hdr = [slot |-> 0, txid |-> 1, root |-> 0, fl |-> Fl0, wal |-> 0, dEnd |-> Al0.dEnd, mEnd |-> Al0.mEnd, mTot |-> Al0.mTot, max |-> MaxPages]
  /\ lk = [sh |-> 0, pe |-> FALSE, res |-> FALSE]
  /\ stats = [data |-> 0, meta |-> Al0.mTot, metaUsed |-> Al0.mTot - Cardinality(Al0.mFree), fsize |-> 0, maxb |-> 0, ovf |-> FALSE]
  /\ dur = (0 :> HdrRec(0, 1, 0, Fl0, 0, Al0)) @@ (1 :> HdrRec(1, 0, 0, Fl0, 0, Al0))
           @@ (IF InitMeta = 0 THEN EmptyFn ELSE (2 :> [k |-> "F", next |-> 0, d |-> {}, m |-> Al0.mFree]))
  /\ pend = <<>> /\ inflight = None /\ maybe = {}
  /\ ntx = 0 /\ nops = 0 /\ ver = 0

(***************************************************************************)
(* Allocator helpers (alloc.go).  Besides the free lists and end markers   *)
(* the allocator record carries what the running transaction records for   *)
(* its rollback (txAllocState): da = pages it took from the data freelist, *)
(* mv = pages it moved from the data area into the meta area, ov = pages   *)
(* it took from the overflow area.                                         *)
(***************************************************************************)
CanExtend(a) == a.dEnd < a.max /\ a.dEnd < NP

\* take one data page: lowest free page, else the end of the data area
DataTake(a) ==
  IF a.dFree # {} THEN LET p == MinOf(a.dFree) IN [ok |-> TRUE, p |-> p, a |-> [a EXCEPT !.dFree = @ \ {p}, !.da = @ \cup {p}]]
  ELSE IF CanExtend(a) THEN [ok |-> TRUE, p |-> a.dEnd,
                             a |-> [a EXCEPT !.dEnd = @ + 1, !.mEnd = Max(a.mEnd, a.dEnd + 1)]]
  ELSE [ok |-> FALSE, p |-> 0, a |-> a]

\* move up to n pages from the data area into the meta freelist (metaManager.tryGrow)
RECURSIVE Grow(_, _)
Grow(a, n) ==
  IF n = 0 THEN a
  ELSE LET t == DataTake(a) IN
       IF ~t.ok THEN a
       ELSE Grow([t.a EXCEPT !.mFree = @ \cup {t.p}, !.mTot = @ + 1, !.mv = @ \cup {t.p}], n - 1)

\* overflow area: when the data area has nothing left, a transaction that enabled it takes the
\* page at the meta end marker (beyond the limit) into the meta freelist (metaManager.tryGrow)
GrowOverflow(a) ==
  IF a.mEnd < NP THEN [a EXCEPT !.mFree = @ \cup {a.mEnd}, !.mEnd = @ + 1, !.mTot = @ + 1, !.ov = @ \cup {a.mEnd}] ELSE a

\* make sure one meta page is free
Ensure(a, ovf) ==
  IF a.mFree # {} THEN a
  ELSE LET g == Grow(a, GrowBy) IN
       IF g.mFree # {} \/ ~ovf THEN g ELSE GrowOverflow(g)

(***************************************************************************)
(* Transaction body                                                        *)
(***************************************************************************)
NoTx == None
InBody == tx # NoTx /\ tx.pc = "body"
Op == nops' = nops + 1 /\ nops < MaxOps

Begin ==
  /\ tx = NoTx /\ ntx < MaxTx
  /\ \E o \in (IF Overflow THEN BOOLEAN ELSE {FALSE}) :
       /\ tx' = [pc |-> "body", root |-> cm.root, w |-> EmptyFn, new |-> {}, freed |-> {}, flushed |-> {},
                 walNew |-> EmptyFn, walRel |-> {}, mFreed |-> {}, mAlloc |-> {}, al0 |-> al, cs |-> None,
                 force |-> FALSE, ovf |-> o, ckpt |-> FALSE]
       /\ stats' = [stats EXCEPT !.ovf = @ \/ o]
  /\ ntx' = ntx + 1 /\ nops' = 0
  /\ lk' = [lk EXCEPT !.res = TRUE]
  /\ UNCHANGED <<cm, rds, al, wm, hdr, dur, pend, cd, inflight, maybe, ver>>

AllocPage ==
  /\ InBody /\ Op
  /\ LET t == DataTake(al) IN
     /\ t.ok
     /\ al' = t.a
     /\ tx' = [tx EXCEPT !.new = @ \cup {t.p}]
  /\ UNCHANGED <<cm, rds, wm, hdr, lk, stats, dur, pend, cd, inflight, maybe, ntx, ver>>

\* SetBytes on a live, not yet flushed page
WritePage(p) ==
  /\ InBody /\ Op /\ p \in TxLive /\ p \notin tx.flushed
  /\ tx' = [tx EXCEPT !.w = @ ++ (p :> Page(ver + 1))]
  /\ ver' = ver + 1
  /\ UNCHANGED <<cm, rds, al, wm, hdr, lk, stats, dur, pend, cd, inflight, maybe, ntx>>

\* Page.Free: not dirty.  A page allocated from the end in this transaction goes back at
\* once (and the end marker shrinks if it was the last page); anything else is deferred.
FreePage(p) ==
  /\ InBody /\ Op /\ p \in TxLive /\ p \notin DOMAIN tx.w /\ p # tx.root
  /\ IF p \in tx.new /\ p >= tx.al0.dEnd
       THEN /\ al' = IF p = al.dEnd - 1 THEN [al EXCEPT !.dEnd = p] ELSE [al EXCEPT !.dFree = @ \cup {p}]
            /\ tx' = [tx EXCEPT !.new = @ \ {p}]
       ELSE /\ al' = al
            /\ tx' = [tx EXCEPT !.freed = @ \cup {p},
                                !.walRel = IF p \in DOMAIN wm.map THEN @ \cup {p} ELSE @,
                                !.mFreed = IF p \in DOMAIN wm.map THEN @ \cup {wm.map[p]} ELSE @]
  /\ UNCHANGED <<cm, rds, wm, hdr, lk, stats, dur, pend, cd, inflight, maybe, ntx, ver>>

SetRoot(p) ==
  /\ InBody /\ Op /\ p \in TxLive \cup {0} /\ p # tx.root
  /\ tx' = [tx EXCEPT !.root = p]
  /\ UNCHANGED <<cm, rds, al, wm, hdr, lk, stats, dur, pend, cd, inflight, maybe, ntx, ver>>

\* Page.doFlush for one dirty page: returns the new tx / allocator / pending writes
FlushOne(t, a, pw, p) ==
  IF p \in t.new
    THEN [ok |-> TRUE, t |-> [t EXCEPT !.flushed = @ \cup {p}], a |-> a, pw |-> Append(pw, <<p, [k |-> "D", q |-> t.w[p]]>>)]
  ELSE IF p \in DOMAIN wm.map /\ p \notin t.walRel
    THEN \* already has a WAL page: write to the original location, release the WAL page
         [ok |-> TRUE,
          t |-> [t EXCEPT !.flushed = @ \cup {p}, !.walRel = @ \cup {p}, !.mFreed = @ \cup {wm.map[p]}],
          a |-> a, pw |-> Append(pw, <<p, [k |-> "D", q |-> t.w[p]]>>)]
  ELSE LET a2 == Ensure(a, t.ovf) IN
       IF a2.mFree = {} THEN [ok |-> FALSE, t |-> t, a |-> a, pw |-> pw]
       ELSE LET w == MinOf(a2.mFree) IN
            [ok |-> TRUE,
             t |-> [t EXCEPT !.flushed = @ \cup {p}, !.walNew = @ ++ (p :> w), !.mAlloc = @ \cup {w}],
             a |-> [a2 EXCEPT !.mFree = @ \ {w}],
             pw |-> Append(pw, <<w, [k |-> "D", q |-> t.w[p]]>>)]

RECURSIVE FlushSet(_, _, _, _)
FlushSet(t, a, pw, S) ==
  IF S = {} THEN [ok |-> TRUE, t |-> t, a |-> a, pw |-> pw]
  ELSE LET p == MinOf(S)  r == FlushOne(t, a, pw, p) IN
       IF ~r.ok THEN r ELSE FlushSet(r.t, r.a, r.pw, S \ {p})

Dirty(t) == (DOMAIN t.w) \ t.flushed

Flush ==   \* Tx.Flush in the body
  /\ InBody /\ Op /\ Dirty(tx) # {}
  /\ LET r == FlushSet(tx, al, pend, Dirty(tx)) IN
     /\ r.ok
     /\ tx' = r.t /\ al' = r.a /\ pend' = r.pw
  /\ UNCHANGED <<cm, rds, wm, hdr, lk, stats, dur, cd, inflight, maybe, ntx, ver>>

\* Tx.CheckpointWAL in the body: the contents of every overwrite page whose page is not dirty
\* in this transaction are copied back to the page (written at once, before the commit), the
\* mapping entry and the overwrite page are released by the commit.  Only the first call acts.
Checkpoint ==
  /\ InBody /\ Op /\ ~tx.ckpt
  /\ LET S == {p \in (DOMAIN wm.map) \ tx.walRel : p \notin DOMAIN tx.w}
         RECURSIVE Copies(_, _)
         Copies(pw, T) == IF T = {} THEN pw
                          ELSE LET p == MinOf(T) IN Copies(Append(pw, <<p, At(Vol, wm.map[p])>>), T \ {p})
     IN
     /\ S # {}
     /\ pend' = Copies(pend, S)
     /\ tx' = [tx EXCEPT !.walRel = @ \cup S, !.mFreed = @ \cup {wm.map[p] : p \in S}, !.ckpt = TRUE]
  /\ UNCHANGED <<cm, rds, al, wm, hdr, lk, stats, dur, cd, inflight, maybe, ntx, ver>>

(***************************************************************************)
(* Abort                                                                   *)
(***************************************************************************)
\* allocator.Rollback as the code does it, from what the transaction recorded:
\*   meta.rollback  : pages beyond the old meta end marker leave the meta freelist, the meta pages
\*                    the transaction allocated (below the old marker) return to it
\*   moveToMeta     : leave the meta freelist and the meta total; the ones from within the old
\*                    data area count as allocated data pages
\*   fromOverflow   : leave the meta freelist and the meta total
\*   data.rollback  : pages beyond the old data end marker leave the data freelist, the data
\*                    pages the transaction took from the freelist return to it
RolledBack(a, t) ==
  LET a0 == t.al0
      mF1 == (a.mFree \ {p \in a.mFree : p >= a0.mEnd}) \cup {p \in t.mAlloc : p < a0.mEnd}
      mF2 == mF1 \ a.mv
      dAll == a.da \cup {p \in a.mv : p < a0.dEnd}
      mF3 == mF2 \ a.ov
      dF == (a.dFree \ {p \in a.dFree : p >= a0.dEnd}) \cup {p \in dAll : p < a0.dEnd}
  IN [a EXCEPT !.dFree = dF, !.mFree = mF3, !.dEnd = a0.dEnd, !.mEnd = a0.mEnd,
               !.mTot = a.mTot - Cardinality(a.mv) - Cardinality(a.ov),
               !.da = {}, !.mv = {}, !.ov = {}]

Rollback ==
  /\ tx # NoTx /\ tx.pc \in {"body", "flushed", "prepared", "allocated", "serialized", "synced1"}
                               \cup (IF AbortAfterHeader THEN {"header"} ELSE {})
  /\ al' = RolledBack(al, tx)
  \* C07: what the recorded state restores is exactly the allocator of Begin
  /\ Assert(al' = tx.al0, <<"RollbackExact: allocator after rollback", al', "at Begin", tx.al0>>)
  /\ tx' = NoTx
  /\ lk' = [lk EXCEPT !.res = FALSE, !.pe = FALSE]
  \* a header that was already written may win after a crash: C08 allows that state
  /\ maybe' = IF tx.pc = "header" THEN maybe \cup {inflight} ELSE maybe
  /\ inflight' = None
  /\ UNCHANGED <<cm, rds, wm, hdr, stats, dur, pend, cd, ntx, nops, ver>>

(***************************************************************************)
(* Commit, step by step (Tx.tryCommitChanges)                              *)
(***************************************************************************)
CFlush ==   \* pending.Lock, flushPages
  /\ InBody
  /\ LET r == FlushSet(tx, al, pend, Dirty(tx)) IN
     /\ r.ok
     /\ tx' = [r.t EXCEPT !.pc = "flushed"] /\ al' = r.a /\ pend' = r.pw
  /\ inflight' = CommitResult
  /\ lk' = [lk EXCEPT !.pe = TRUE]
  /\ UNCHANGED <<cm, rds, wm, hdr, stats, dur, cd, maybe, ntx, nops, ver>>

\* new mapping, checkpoint, old list pages released
CPrepare ==
  /\ tx # NoTx /\ tx.pc = "flushed"
  /\ LET keep == [p \in (DOMAIN wm.map) \ (tx.walRel \cup DOMAIN tx.walNew) |-> wm.map[p]]
         merged == keep ++ tx.walNew
         walChanged == tx.walRel # {} \/ DOMAIN tx.walNew # {}
         ckpt == Cardinality(DOMAIN merged) >= WALLimit /\ DOMAIN merged # {}
         \* checkpoint: copy the contents of every kept WAL page back to its page
         copies == [p \in DOMAIN keep |-> <<p, At(Vol, keep[p])>>]
         RECURSIVE AppendAll(_, _)
         AppendAll(pw, S) == IF S = {} THEN pw ELSE LET p == MinOf(S) IN AppendAll(Append(pw, copies[p]), S \ {p})
         newMap == IF ckpt THEN tx.walNew ELSE merged
         upd == walChanged \/ ckpt
         allocUpd == tx.new # {} \/ tx.freed # {} \/ tx.mAlloc # {} \/ tx.mFreed # {} \/ upd \/ al # tx.al0 \/ tx.force
     IN
     /\ pend' = IF ckpt THEN AppendAll(pend, DOMAIN keep) ELSE pend
     /\ tx' = [tx EXCEPT !.pc = "prepared",
                         !.mFreed = @ \cup (IF ckpt THEN Range(keep) ELSE {})
                                      \cup (IF upd THEN wm.pgs ELSE {})
                                      \cup (IF allocUpd THEN al.flp ELSE {}),
                         !.cs = [map |-> newMap, walUpd |-> upd, allocUpd |-> allocUpd]]
  /\ UNCHANGED <<cm, rds, al, wm, hdr, lk, stats, dur, cd, inflight, maybe, ntx, nops, ver>>

\* the pages of S at or beyond the limit that form a contiguous run up to the end marker
Suffix(S, max, end) == {p \in S : p >= max /\ \A q \in p..(end - 1) : q \in S}

\* take one list page from the end of the meta freelist
MetaTakeHigh(a) ==
  LET a2 == Ensure(a, tx.ovf) IN
  IF a2.mFree = {} THEN [ok |-> FALSE, p |-> 0, a |-> a]
  ELSE LET p == MaxOf(a2.mFree) IN [ok |-> TRUE, p |-> p, a |-> [a2 EXCEPT !.mFree = @ \ {p}]]

CAllocMeta ==
  /\ tx # NoTx /\ tx.pc = "prepared"
  /\ LET needW == tx.cs.walUpd /\ DOMAIN tx.cs.map # {}
         tw == IF needW THEN MetaTakeHigh(al) ELSE [ok |-> TRUE, p |-> 0, a |-> al]
         \* the freelists after the commit: deferred frees are merged only now
         needF == tx.cs.allocUpd \/ needW
         tf == IF needF THEN MetaTakeHigh(tw.a) ELSE [ok |-> TRUE, p |-> 0, a |-> tw.a]
         mF == tf.a.mFree \cup tx.mFreed
         dF2 == tf.a.dFree \cup tx.freed
         \* free pages beyond the limit are released from the end of the file: first the end of
         \* the meta freelist (the data end marker follows if the meta area ends the file), then
         \* the end of the data freelist
         relM == Suffix(mF, al.max, tf.a.mEnd)
         nM == Cardinality(relM)
         mEnd1 == tf.a.mEnd - nM
         dEnd1 == IF nM > 0 /\ tf.a.mEnd >= tf.a.dEnd THEN mEnd1 ELSE tf.a.dEnd
         relD == Suffix(dF2, al.max, dEnd1)
         nD == Cardinality(relD)
         dEnd2 == dEnd1 - nD
         mEnd2 == IF nD > 0 /\ mEnd1 >= dEnd2 THEN dEnd2 ELSE mEnd1
     IN
     /\ tw.ok /\ tf.ok
     /\ al' = tf.a
     /\ tx' = [tx EXCEPT !.pc = "allocated",
                         !.mAlloc = @ \cup (IF needW THEN {tw.p} ELSE {}) \cup (IF needF THEN {tf.p} ELSE {}),
                         !.cs = [map |-> tx.cs.map, walUpd |-> tx.cs.walUpd, allocUpd |-> tx.cs.allocUpd,
                                 walPg |-> IF needW THEN tw.p ELSE (IF tx.cs.walUpd THEN 0 ELSE hdr.wal),
                                 flPg |-> IF needF THEN tf.p ELSE hdr.fl,
                                 allocUpd2 |-> needF,
                                 dFree |-> IF needF THEN dF2 \ relD ELSE dF2,
                                 mFree |-> IF needF THEN mF \ relM ELSE mF,
                                 dEnd |-> IF needF THEN dEnd2 ELSE tf.a.dEnd,
                                 mEnd |-> IF needF THEN mEnd2 ELSE tf.a.mEnd,
                                 mTot |-> IF needF THEN tf.a.mTot - nM ELSE tf.a.mTot]]
  /\ UNCHANGED <<cm, rds, wm, hdr, lk, stats, dur, pend, cd, inflight, maybe, ntx, nops, ver>>

MapSeq(m) == LET RECURSIVE S(_) S(D) == IF D = {} THEN <<>> ELSE LET p == MinOf(D) IN <<<<p, m[p]>>>> \o S(D \ {p}) IN S(DOMAIN m)

CSerialize ==
  /\ tx # NoTx /\ tx.pc = "allocated"
  /\ LET c == tx.cs
         w1 == IF c.walUpd /\ c.walPg # 0 THEN <<<<c.walPg, [k |-> "W", next |-> 0, map |-> MapSeq(c.map)]>>>> ELSE <<>>
         w2 == IF c.allocUpd2 THEN <<<<c.flPg, [k |-> "F", next |-> 0, d |-> c.dFree, m |-> c.mFree]>>>> ELSE <<>>
     IN pend' = pend \o w1 \o w2
  /\ tx' = [tx EXCEPT !.pc = "serialized"]
  /\ UNCHANGED <<cm, rds, al, wm, hdr, lk, stats, dur, cd, inflight, maybe, ntx, nops, ver>>

CSync1 ==
  /\ tx # NoTx /\ tx.pc = "serialized"
  /\ dur' = Vol /\ pend' = <<>>
  /\ tx' = [tx EXCEPT !.pc = "synced1"]
  /\ UNCHANGED <<cm, rds, al, wm, hdr, lk, stats, cd, inflight, maybe, ntx, nops, ver>>

NewHdr == LET c == tx.cs IN
  [k |-> "H", ok |-> TRUE, txid |-> hdr.txid + 1, root |-> tx.root, fl |-> c.flPg, wal |-> c.walPg,
   dEnd |-> c.dEnd, mEnd |-> c.mEnd, mTot |-> c.mTot, max |-> al.max]

CHeader ==
  /\ tx # NoTx /\ tx.pc = "synced1"
  /\ pend' = Append(pend, <<1 - hdr.slot, NewHdr>>)
  /\ tx' = [tx EXCEPT !.pc = "header"]
  /\ UNCHANGED <<cm, rds, al, wm, hdr, lk, stats, dur, cd, inflight, maybe, ntx, nops, ver>>

CSync2 ==
  /\ tx # NoTx /\ tx.pc = "header"
  /\ dur' = Vol /\ pend' = <<>>
  /\ tx' = [tx EXCEPT !.pc = "durable"]
  /\ cd' = inflight /\ maybe' = {}          \* the slot of an earlier failed attempt has been overwritten
  /\ UNCHANGED <<cm, rds, al, wm, hdr, lk, stats, inflight, ntx, nops, ver>>

\* allocator.Commit, exclusive.Lock, wal.Commit, metaActive switch
CSwitch ==
  /\ tx # NoTx /\ tx.pc = "durable"
  /\ DOMAIN rds = {}                         \* the exclusive lock: no reader is alive
  /\ LET c == tx.cs IN
     /\ al' = [al EXCEPT !.dFree = c.dFree, !.mFree = c.mFree,
                         !.dEnd = c.dEnd, !.mEnd = c.mEnd, !.mTot = c.mTot,
                         !.da = {}, !.mv = {}, !.ov = {},
                         !.flp = IF c.allocUpd2 THEN (IF c.flPg = 0 THEN {} ELSE {c.flPg}) ELSE @]
     /\ wm' = IF c.walUpd THEN [map |-> c.map, pgs |-> IF c.walPg = 0 THEN {} ELSE {c.walPg}] ELSE wm
     /\ hdr' = [slot |-> 1 - hdr.slot, txid |-> hdr.txid + 1, root |-> tx.root, fl |-> c.flPg, wal |-> c.walPg,
                dEnd |-> c.dEnd, mEnd |-> c.mEnd, mTot |-> c.mTot, max |-> al.max]
  /\ cm' = inflight
  /\ tx' = [tx EXCEPT !.pc = "switched", !.w = EmptyFn, !.new = {}, !.freed = {}]
  /\ UNCHANGED <<rds, lk, stats, dur, pend, cd, inflight, maybe, ntx, nops, ver>>

CDone ==
  /\ tx # NoTx /\ tx.pc = "switched"
  /\ tx' = NoTx /\ inflight' = None
  /\ lk' = [lk EXCEPT !.res = FALSE, !.pe = FALSE]
  /\ stats' = [stats EXCEPT !.data = Cardinality(Live), !.meta = al.mTot, !.metaUsed = al.mTot - Cardinality(al.mFree)]
  /\ UNCHANGED <<cm, rds, al, wm, hdr, dur, pend, cd, maybe, ntx, nops, ver>>

(***************************************************************************)
(* Readers                                                                 *)
(***************************************************************************)
BeginRead(r) ==
  /\ r \notin DOMAIN rds /\ ~lk.pe
  /\ rds' = rds ++ (r :> cm)
  /\ lk' = [lk EXCEPT !.sh = @ + 1]
  /\ UNCHANGED <<cm, tx, al, wm, hdr, stats, dur, pend, cd, inflight, maybe, ntx, nops, ver>>

EndRead(r) ==
  /\ r \in DOMAIN rds
  /\ rds' = Restrict(rds, DOMAIN rds \ {r})
  /\ lk' = [lk EXCEPT !.sh = @ - 1]
  /\ UNCHANGED <<cm, tx, al, wm, hdr, stats, dur, pend, cd, inflight, maybe, ntx, nops, ver>>

(***************************************************************************)
(* Crash and recovery: restart from the durable image, or from the image   *)
(* in which every pending write reached the disk                           *)
(***************************************************************************)
RecoverFrom(img) ==
  LET s == Pick(At(img, 0), At(img, 1))  h == img[s]  rb == Rebuild(img, h) IN
  /\ s # 2 /\ rb.ok
  /\ al' = [dFree |-> rb.dFree, mFree |-> rb.mFree, dEnd |-> h.dEnd, mEnd |-> h.mEnd, mTot |-> h.mTot, flp |-> rb.fpg, max |-> h.max,
            da |-> {}, mv |-> {}, ov |-> {}]
  /\ wm' = [map |-> rb.map, pgs |-> rb.wpg]
  /\ hdr' = [slot |-> s, txid |-> h.txid, root |-> h.root, fl |-> h.fl, wal |-> h.wal, dEnd |-> h.dEnd, mEnd |-> h.mEnd, mTot |-> h.mTot, max |-> h.max]
  /\ cm' = [root |-> h.root, pages |-> [p \in rb.live |-> LET c == At(img, Phys(rb.map, p)) IN IF c.k = "D" THEN c.q ELSE UndefPage]]
  /\ cd' = cm' /\ dur' = img /\ pend' = <<>>

CrashRecover ==
  /\ ntx < MaxTx            \* something is still going to happen afterwards
  /\ \/ RecoverFrom(dur)
     \/ pend # <<>> /\ RecoverFrom(Vol)
  /\ tx' = NoTx /\ rds' = EmptyFn /\ inflight' = None /\ maybe' = {}
  /\ lk' = [sh |-> 0, pe |-> FALSE, res |-> FALSE]
  /\ stats' = [stats EXCEPT !.data = Cardinality(DOMAIN cm'.pages), !.meta = al'.mTot, !.metaUsed = al'.mTot - Cardinality(al'.mFree)]
  /\ UNCHANGED <<ntx, nops, ver>>

(***************************************************************************)
(* Open with FlagUpdMaxSize and a different limit (between transactions,   *)
(* nobody else has the file open)                                          *)
(***************************************************************************)
ResizeHdr(m) ==
  /\ tx = NoTx /\ DOMAIN rds = {} /\ pend = <<>> /\ ntx < MaxTx /\ m # al.max
  /\ tx' = [pc |-> "rzhdr", root |-> cm.root, w |-> EmptyFn, new |-> {}, freed |-> {}, flushed |-> {},
            walNew |-> EmptyFn, walRel |-> {}, mFreed |-> {}, mAlloc |-> {}, al0 |-> al, cs |-> [m |-> m],
            force |-> TRUE, ovf |-> FALSE, ckpt |-> FALSE]
  /\ pend' = <<<<1 - hdr.slot, [k |-> "H", ok |-> TRUE, txid |-> hdr.txid + 1, root |-> hdr.root, fl |-> hdr.fl,
                               wal |-> hdr.wal, dEnd |-> hdr.dEnd, mEnd |-> hdr.mEnd, mTot |-> hdr.mTot, max |-> m]>>>>
  /\ inflight' = cm
  /\ lk' = [lk EXCEPT !.res = TRUE, !.pe = TRUE]
  /\ ntx' = ntx + 1 /\ nops' = 0
  /\ UNCHANGED <<cm, rds, al, wm, hdr, stats, dur, cd, maybe, ver>>

\* the header is durable: new limit in force; after a shrink the forced allocator commit follows
\* if free pages border on an end marker beyond the limit (it is allowed to fail: Rollback)
ResizeSync ==
  /\ tx # NoTx /\ tx.pc = "rzhdr"
  /\ LET m == tx.cs.m
         shrink == m < al.max
         canRel == \/ (al.dEnd > m /\ (al.dEnd - 1) \in al.dFree)
                   \/ (al.mEnd > m /\ (al.mEnd - 1) \in al.mFree)
         a2 == [al EXCEPT !.max = m]
     IN
     /\ dur' = Vol /\ pend' = <<>>
     /\ hdr' = [hdr EXCEPT !.slot = 1 - hdr.slot, !.txid = hdr.txid + 1, !.max = m]
     /\ al' = a2
     /\ cd' = inflight /\ maybe' = {}
     /\ IF shrink /\ canRel
          THEN /\ tx' = [tx EXCEPT !.pc = "flushed", !.al0 = a2, !.cs = None]
               /\ UNCHANGED <<lk, inflight>>
          ELSE /\ tx' = NoTx /\ inflight' = None
               /\ lk' = [lk EXCEPT !.res = FALSE, !.pe = FALSE]
  /\ UNCHANGED <<cm, rds, wm, stats, ntx, nops, ver>>

Next ==
  \/ \E m \in Sizes : ResizeHdr(m)
  \/ ResizeSync
  \/ Begin \/ AllocPage \/ Flush \/ Checkpoint \/ Rollback
  \/ \E p \in 2..(NP - 1) : WritePage(p) \/ FreePage(p) \/ SetRoot(p)
  \/ SetRoot(0)
  \/ CFlush \/ CPrepare \/ CAllocMeta \/ CSerialize \/ CSync1 \/ CHeader \/ CSync2 \/ CSwitch \/ CDone
  \/ \E r \in Readers : BeginRead(r) \/ EndRead(r)
  \/ CrashRecover

Spec == Init /\ [][Next]_xvars

(***************************************************************************)
(* Properties beyond the ones of TxCore.tla                                *)
(***************************************************************************)
\* C14: the file only ever grows within the limit in force (after a shrink it may stay
\* larger than the new limit, but it never extends further)
GrowsWithinLimit == [][End' > End => End' <= al'.max]_xvars
\* C14: changing the limit does not touch the logical file
\* (a crash in the middle is judged by CrashSafe: the recovered model may show contents where
\* the model has undefined ones)
ResizeKeepsModel == [][(tx # NoTx /\ tx.force /\ tx' # NoTx) => cm' = cm]_xvars

\* C02: what a reader can read now (through the current mapping and disk) is its snapshot
ReaderIsolation ==
  \A r \in DOMAIN rds :
    \A p \in DOMAIN rds[r].pages :
      LET c == At(Vol, Phys(wm.map, p)) IN
      rds[r].pages[p] = UndefPage \/ (c.k = "D" /\ MatchPage(c.q, rds[r].pages[p]))

\* C03: between transactions the file shows the model
CommittedIsModel == ReopenStable

\* C07 (RollbackExact) holds by construction of the Rollback action here; what matters is
\* that the real code agrees: TxTrace.tla compares the complete projection after every abort
\* with the one at Begin.

\* the exhaustive form of CrashSafe (every subset of the pending writes, page granular) for
\* cross-checking the structural formulation of TxCore.tla on small models
PendIds == {pend[i][1] : i \in 1..Len(pend)}
RECURSIVE Imgs(_, _)
Imgs(S, base) == IF S = {} THEN {base}
                 ELSE LET id == CHOOSE x \in S : TRUE
                      IN UNION {Imgs(S \ {id}, Put(base, id, c)) : c \in (IF id < 2 THEN HdrChoices(id) ELSE PgChoices(id))}
LogicalOf(img) ==
  LET s == Pick(At(img, 0), At(img, 1)) IN
  IF s = 2 THEN [bad |-> TRUE]
  ELSE LET h == img[s]  rb == Rebuild(img, h) IN
       IF ~rb.ok THEN [bad |-> TRUE]
       ELSE [bad |-> FALSE, root |-> h.root, pages |-> [p \in rb.live |-> At(img, Phys(rb.map, p))]]
Shows(L, E) == /\ ~L.bad /\ L.root = E.root /\ DOMAIN L.pages = DOMAIN E.pages
               /\ \A p \in DOMAIN E.pages : E.pages[p] = UndefPage \/ (L.pages[p].k = "D" /\ MatchPage(L.pages[p].q, E.pages[p]))
CrashSafeEnum == \A img \in Imgs(PendIds, dur) : \E E \in Allowed : Shows(LogicalOf(img), E)
CrashSafeAgree == CrashSafe <=> CrashSafeEnum
=============================================================================
