------------------------------ MODULE TxReplay ------------------------------
(***************************************************************************)
(* Generator of replayable behaviours of TxFile.tla: every transition of   *)
(* the operational specification (within the bounds of the configuration)  *)
(* is printed as the path of public calls leading to it, together with the *)
(* logical file the specification predicts at every quiescent point.  The  *)
(* harness executes each path on the real store (the page ids of the       *)
(* specification are mapped to the ids the real allocator hands out) and   *)
(* compares root, live pages and contents after every transaction, every   *)
(* reader snapshot and after a close + reopen; the recorded execution is   *)
(* judged by TxTrace.tla as well.                                          *)
(*                                                                         *)
(* The steps of a commit are separate transitions of the specification but *)
(* one call of the real code: only CFlush ("C") and CDone ("D") are        *)
(* labelled.  Readers act between transactions and in the body of a write  *)
(* transaction (a commit waits for them; interleavings of readers with the *)
(* steps of a commit are replayed by the lock-level check of C02/C09).     *)
(* A clean close + reopen is a step that leaves the model unchanged (crash *)
(* points are explored by C01 on the real I/O).                            *)
(***************************************************************************)
EXTENDS TxFile

CONSTANT Busy   \* TRUE (random walks): a transaction is ended only after at least two calls

VARIABLE hist

RECURSIVE PagesStr(_, _)
PagesStr(pg, D) ==
  IF D = {} THEN ""
  ELSE LET p == MinOf(D) IN
       ToString(p) \o "=" \o (IF pg[p] = UndefPage THEN "u" ELSE ToString(pg[p][1])) \o ";" \o PagesStr(pg, D \ {p})

\* logical file: root/page=version;...
Logical(c) == ToString(c.root) \o "/" \o PagesStr(c.pages, DOMAIN c.pages)

L(s) == hist' = hist \o s \o ","
Silent == hist' = hist

\* readers act between transactions and in the body of a write transaction
RdOK == IF tx = NoTx THEN TRUE ELSE tx.pc = "body"

RInit == Init /\ hist = ""

RNext ==
  \/ Begin /\ L("B")
  \/ AllocPage /\ L("A" \o ToString(DataTake(al).p))
  \/ Flush /\ L("L")
  \/ Checkpoint /\ L("P")
  \/ InBody /\ (Busy => nops >= 2) /\ Rollback /\ L("K:" \o Logical(cm))
  \/ \E p \in 2..(NP - 1) :
        \/ WritePage(p) /\ L("W" \o ToString(p) \o "=" \o ToString(ver + 1))
        \/ FreePage(p) /\ L("F" \o ToString(p))
        \/ SetRoot(p) /\ L("S" \o ToString(p))
  \/ SetRoot(0) /\ L("S0")
  \/ DOMAIN rds = {} /\ (Busy => nops >= 2) /\ CFlush /\ L("C")
  \/ (CPrepare \/ CAllocMeta \/ CSerialize \/ CSync1 \/ CHeader \/ CSync2 \/ CSwitch) /\ Silent
  \/ CDone /\ L("D:" \o Logical(cm))
  \/ \E r \in Readers :
        \/ RdOK /\ BeginRead(r) /\ L("R" \o ToString(r) \o ":" \o Logical(cm))
        \/ RdOK /\ EndRead(r) /\ L("E" \o ToString(r) \o ":" \o Logical(rds[r]))
  \* clean close + reopen between transactions: by ReopenStable the rebuilt state is the current
  \* one, so the model does not change (CrashRecover would read the disk for pages that were
  \* allocated but never written - their contents are undefined, and the real file, whose
  \* allocator hands out other ids, need not show the same left-overs)
  \/ tx = NoTx /\ pend = <<>> /\ DOMAIN rds = {} /\ ntx < MaxTx /\ UNCHANGED xvars /\ L("O:" \o Logical(cm))

RSpec == RInit /\ [][RNext]_<<xvars, hist>>

RView == <<cm, tx, rds, al, wm, hdr, lk, dur, pend, cd, inflight, maybe, ntx, nops>>
Emit == IF hist' # hist THEN PrintT("@P " \o hist') ELSE TRUE
=============================================================================
