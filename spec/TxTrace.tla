------------------------------ MODULE TxTrace ------------------------------
(***************************************************************************)
(* Trace specification of the store: decides whether executions recorded   *)
(* from the real code (public API on a simulated disk, verif hooks inside  *)
(* the commit, I/O of the background writer) are behaviours of the         *)
(* sequential / crash model of TxCore.tla, and evaluates every named       *)
(* property in every state of the execution.                               *)
(*                                                                         *)
(* Logical variables (cm, tx, rds, cd, inflight, maybe) are computed by    *)
(* the actions below from the logged operation arguments; in-memory        *)
(* variables (al, wm, hdr, lk, stats) are bound to the projection of the   *)
(* real state logged with the event; disk variables (dur, pend) follow     *)
(* the logged I/O.  Results logged by the real code (ids returned by       *)
(* Alloc, bytes read, error or success) are checked against the model.     *)
(* Allocation policy is deliberately not constrained.                      *)
(***************************************************************************)
EXTENDS TxCore, Json

\* Properties whose action-level checks are enforced in this run.  Each check of the
\* framework judges the same traces with Props = {its own property}: a trace is then
\* rejected only for a reason that concerns that property, and validation continues
\* past deviations that belong to another property's check.
CONSTANT Props
Chk(p, cond) == (p \notin Props) \/ cond

VARIABLES l,        \* next trace line
          begin,    \* projection at the begin of the running write transaction (RollbackExact)
          tick      \* what the last event touched: "q" a transaction ended / file (re)opened,
                    \* "io" disk or commit ghosts changed, "-" neither (the expensive disk
                    \* invariants are re-evaluated only when their inputs changed)

Trace == ndJsonDeserialize("trace.ndjson")
Ev == Trace[l]

tvars == <<coreVars, l, begin, tick>>

RegSet(regs) == UNION {(regs[i][1])..(regs[i][1] + regs[i][2] - 1) : i \in 1..Len(regs)}
SeqSet(s) == {s[i] : i \in 1..Len(s)}
PairMap(ps) == [k \in {ps[i][1] : i \in 1..Len(ps)} |-> (CHOOSE v \in {ps[i][2] : i \in 1..Len(ps)} : \E i \in 1..Len(ps) : ps[i][1] = k /\ ps[i][2] = v)]

\* projection of the real file state logged with an event
AlOf(st) == [dFree |-> RegSet(st.dfree), mFree |-> RegSet(st.mfree), dEnd |-> st.de, mEnd |-> st.me,
             mTot |-> st.mt, flp |-> RegSet(st.flp), max |-> st.maxp]
WmOf(st) == [map |-> PairMap(st.wal), pgs |-> RegSet(st.walpg)]
HdrOf(st) == [slot |-> st.slot, txid |-> st.txid, root |-> st.root, fl |-> st.hfl, wal |-> st.hwal,
              dEnd |-> st.hde, mEnd |-> st.hme, mTot |-> st.hmt, max |-> st.hmax]
LkOf(st) == [sh |-> st.sh, pe |-> st.pe, res |-> st.res]
StatsOf(st) == [data |-> st.sd, meta |-> st.sm, metaUsed |-> st.smu, fsize |-> st.fsz, maxb |-> st.maxb, ovf |-> st.ovf]

BindFile(st) == al' = AlOf(st) /\ wm' = WmOf(st) /\ hdr' = HdrOf(st) /\ lk' = LkOf(st) /\ stats' = StatsOf(st)
HasSt(e) == "st" \in DOMAIN e
\* events of goroutines that do not own the file state carry the lock projection only
BindOrKeep(e) == IF HasSt(e) THEN BindFile(e.st)
                 ELSE /\ UNCHANGED <<al, wm, hdr, stats>>
                      /\ IF "lk" \in DOMAIN e THEN lk' = LkOf(e.lk) ELSE UNCHANGED lk

Proj == <<al, wm, hdr.root, hdr.dEnd, hdr.mEnd, hdr.mTot, hdr.fl, hdr.wal, hdr.txid, hdr.slot>>
ProjOf(st) == <<AlOf(st), WmOf(st), st.root, st.hde, st.hme, st.hmt, st.hfl, st.hwal, st.txid, st.slot>>

DiskOf(c) ==   \* abstract content of a written page as decoded by the harness
  CASE c.k = "D" -> [k |-> "D", q |-> c.q]
    [] c.k = "H" -> [k |-> "H", ok |-> c.ok, txid |-> c.txid, root |-> c.root, fl |-> c.fl, wal |-> c.wal,
                     dEnd |-> c.de, mEnd |-> c.me, mTot |-> c.mt, max |-> c.max]
    [] c.k = "F" -> [k |-> "F", next |-> c.next, d |-> RegSet(c.d), m |-> RegSet(c.m)]
    [] c.k = "W" -> [k |-> "W", next |-> c.next, map |-> c.map]
    [] OTHER     -> [k |-> c.k]

PagesOf(ps) == [p \in {ps[i][1] : i \in 1..Len(ps)} |-> (CHOOSE c \in {ps[i][2] : i \in 1..Len(ps)} : \E i \in 1..Len(ps) : ps[i][1] = p /\ ps[i][2] = c)]

NoTx == None
KeepLogical == UNCHANGED <<cm, tx, rds>>
KeepDisk == UNCHANGED <<dur, pend>>
KeepGhost == UNCHANGED <<cd, inflight, maybe>>

(***************************************************************************)
(* Events                                                                  *)
(***************************************************************************)
\* Adopt: start of a trace - a file has been created or opened; the logical model is
\* taken from the log (an empty file, or the model state the harness carried over).
Adopt(e) ==
  /\ cm' = [root |-> e.root, pages |-> PagesOf(e.pages)]
  /\ cd' = cm' /\ tx' = NoTx /\ rds' = EmptyFn /\ inflight' = None /\ maybe' = {}
  /\ BindFile(e.st)
  /\ dur' = [p \in {e.disk[i][1] : i \in 1..Len(e.disk)} |->
               DiskOf((CHOOSE c \in {e.disk[i][2] : i \in 1..Len(e.disk)} : \E i \in 1..Len(e.disk) : e.disk[i][1] = p /\ e.disk[i][2] = c))]
  /\ pend' = <<>>
  /\ begin' = None

BeginW(e) ==
  /\ tx = NoTx /\ e.err = ""
  /\ tx' = [root |-> cm.root, w |-> EmptyFn, new |-> {}, freed |-> {}, overflow |-> e.overflow]
  /\ begin' = ProjOf(e.st)
  /\ e.root = cm.root
  /\ BindFile(e.st) /\ UNCHANGED <<cm, rds>> /\ KeepDisk /\ KeepGhost

BeginR(e) ==
  /\ e.r \notin DOMAIN rds /\ e.err = ""
  /\ rds' = rds ++ [x \in {e.r} |-> cm]
  /\ e.root = cm.root
  /\ BindOrKeep(e) /\ UNCHANGED <<cm, tx, begin>> /\ KeepDisk /\ KeepGhost

EndR(e) ==
  /\ e.r \in DOMAIN rds
  /\ rds' = Restrict(rds, DOMAIN rds \ {e.r})
  /\ BindOrKeep(e) /\ UNCHANGED <<cm, tx, begin>> /\ KeepDisk /\ KeepGhost

\* read through a read-only transaction: exactly the snapshot taken at its begin (C02)
ReadR(e) ==
  /\ e.r \in DOMAIN rds
  /\ Chk("C03", IF e.id \in DOMAIN rds[e.r].pages
                   THEN e.err = "" /\ MatchPage(e.q, rds[e.r].pages[e.id])
                   ELSE e.err # "")
  /\ UNCHANGED <<coreVars, begin>>

\* read inside the write transaction: own writes, else committed (C03)
ReadW(e) ==
  /\ tx # NoTx
  /\ Chk("C03", IF e.id \in TxLive
                   THEN \/ e.err = "" /\ MatchPage(e.q, TxView(e.id))
                        \/ e.err # "" /\ e.id \in tx.new /\ e.id \notin DOMAIN tx.w    \* fresh page without contents
                   ELSE e.err # "")
  /\ UNCHANGED <<coreVars, begin>>

\* C04: ids handed out are unused
AllocOK(ids) ==
  /\ Cardinality(ids) > 0
  /\ \A p \in ids : p >= 2
  /\ Disjoint(ids, Live)                       \* incl. committed pages freed by this transaction
  /\ Disjoint(ids, tx.new \ tx.freed)
  /\ Disjoint(ids, MetaUsed)                   \* pages the file uses internally
  /\ Disjoint(ids, al.mFree)
  /\ ids \subseteq al.dFree \cup {p \in Int : p >= al.dEnd}   \* really unused before the call
  /\ (al.max > 0 => \A p \in ids : p < al.max)

Alloc(e) ==
  /\ tx # NoTx
  /\ IF e.err = ""
       THEN LET ids == SeqSet(e.ids) IN
            /\ Len(e.ids) = e.n
            /\ Chk("C04", Cardinality(ids) = e.n /\ AllocOK(ids))
            /\ tx' = [tx EXCEPT !.new = @ \cup ids, !.freed = @ \ ids]
       ELSE tx' = tx
  /\ BindFile(e.st) /\ UNCHANGED <<cm, rds, begin>> /\ KeepDisk /\ KeepGhost

SetB(e) ==   \* SetBytes of the first e.nq quarters with version e.v
  /\ tx # NoTx /\ e.err = "" /\ e.id \in TxLive
  /\ tx' = [tx EXCEPT !.w = @ ++ [x \in {e.id} |-> SetQuarters(TxView(e.id), e.nq, e.v)]]
  /\ BindOrKeep(e) /\ UNCHANGED <<cm, rds, begin>> /\ KeepDisk /\ KeepGhost

LoadSet(e) == \* Load, overwrite quarter e.k in place, MarkDirty
  /\ tx # NoTx /\ e.err = "" /\ e.id \in TxLive
  /\ tx' = [tx EXCEPT !.w = @ ++ [x \in {e.id} |-> [TxView(e.id) EXCEPT ![e.k] = e.v]]]
  /\ BindOrKeep(e) /\ UNCHANGED <<cm, rds, begin>> /\ KeepDisk /\ KeepGhost

Free(e) ==
  /\ tx # NoTx /\ e.err = "" /\ e.id \in TxLive
  /\ tx' = [tx EXCEPT !.freed = @ \cup {e.id}, !.w = Restrict(@, DOMAIN @ \ {e.id})]
  /\ BindFile(e.st) /\ UNCHANGED <<cm, rds, begin>> /\ KeepDisk /\ KeepGhost

SetRoot(e) ==
  /\ tx # NoTx
  /\ tx' = [tx EXCEPT !.root = e.id]
  /\ UNCHANGED <<cm, rds, begin, al, wm, hdr, lk, stats>> /\ KeepDisk /\ KeepGhost

\* Flush / CheckpointWAL change no logical state; the file projection is re-bound
FlushOrCheckpoint(e) ==
  /\ tx # NoTx
  /\ BindFile(e.st) /\ KeepLogical /\ UNCHANGED begin /\ KeepDisk /\ KeepGhost

\* hook commit/pending: the commit starts; from now on a crash may show its result
CommitBegin(e) ==
  /\ tx # NoTx /\ inflight = None
  /\ inflight' = CommitResult
  /\ UNCHANGED <<cm, tx, rds, begin, al, wm, hdr, lk, stats, cd, maybe>> /\ KeepDisk

\* hook commit/switched: under the exclusive lock the new state becomes the visible one
CommitSwitched(e) ==
  /\ tx # NoTx /\ inflight # None
  /\ Chk("C02", DOMAIN rds = {} /\ e.st.pe /\ e.st.sh = 0)   \* no reader is alive, none can begin
  /\ cm' = inflight /\ cd' = inflight
  /\ tx' = [tx EXCEPT !.w = EmptyFn, !.new = {}, !.freed = {}]   \* its effects are part of cm now
  /\ BindFile(e.st)
  /\ UNCHANGED <<rds, begin, inflight, maybe>> /\ KeepDisk

CommitOK(e) ==   \* Commit returned nil
  /\ tx # NoTx /\ e.err = ""
  /\ cm = inflight                                \* it went through CommitSwitched
  /\ tx' = NoTx /\ inflight' = None /\ begin' = None
  /\ BindFile(e.st) /\ UNCHANGED <<cm, rds, cd, maybe>> /\ KeepDisk

\* Commit returned an error, Rollback, or Close of a write transaction: no trace left (C07)
Abort(e) ==
  /\ tx # NoTx
  /\ tx' = NoTx /\ begin' = None
  /\ BindFile(e.st)
  /\ Chk("C07", ProjOf(e.st) = begin)              \* RollbackExact: complete projection as at Begin
  /\ inflight' = None
  /\ maybe' = IF inflight # None /\ e.hdrIssued THEN maybe \cup {inflight} ELSE maybe
  /\ UNCHANGED <<cm, rds, cd>> /\ KeepDisk

\* I/O of the background writer, as seen by the simulated disk
Write(e) ==
  /\ pend' = Append(pend, <<e.pg, DiskOf(e.c)>>)
  /\ UNCHANGED <<cm, tx, rds, al, wm, hdr, lk, stats, dur, begin>> /\ KeepGhost

Sync(e) ==
  /\ dur' = Vol /\ pend' = <<>>
  \* a failed attempt whose header did not win can no longer show up once another header is durable
  /\ UNCHANGED <<cm, tx, rds, al, wm, hdr, lk, stats, begin>> /\ KeepGhost

\* observation: the real Open on a crash image of this point recovered this state
Recovered(e) ==
  /\ ("C01" \notin Props /\ "C08" \notin Props) \/ \E E \in Allowed :
        /\ e.root = E.root
        /\ LET got == PagesOf(e.pages) IN
           /\ DOMAIN got = DOMAIN E.pages
           /\ \A p \in DOMAIN got : MatchPage(got[p], E.pages[p])
  /\ UNCHANGED <<coreVars, begin>>

\* C10: close and reopen - the complete projection of the reopened file equals the one
\* before the close; the logical model and the disk are untouched
Reopen(e) ==
  /\ tx = NoTx /\ DOMAIN rds = {}
  /\ BindFile(e.st)
  /\ Chk("C10", ProjOf(e.st) = Proj)
  /\ KeepLogical /\ UNCHANGED begin /\ KeepDisk /\ KeepGhost

\* observation without effect on the model (markers)
Note(e) == UNCHANGED <<coreVars, begin>>

Act(e) ==
  CASE e.ev = "Adopt"          -> Adopt(e)
    [] e.ev = "BeginW"         -> BeginW(e)
    [] e.ev = "BeginR"         -> BeginR(e)
    [] e.ev = "EndR"           -> EndR(e)
    [] e.ev = "ReadR"          -> ReadR(e)
    [] e.ev = "ReadW"          -> ReadW(e)
    [] e.ev = "Alloc"          -> Alloc(e)
    [] e.ev = "Set"            -> SetB(e)
    [] e.ev = "LoadSet"        -> LoadSet(e)
    [] e.ev = "Free"           -> Free(e)
    [] e.ev = "SetRoot"        -> SetRoot(e)
    [] e.ev = "Flush"          -> FlushOrCheckpoint(e)
    [] e.ev = "Checkpoint"     -> FlushOrCheckpoint(e)
    [] e.ev = "CommitBegin"    -> CommitBegin(e)
    [] e.ev = "CommitSwitched" -> CommitSwitched(e)
    [] e.ev = "Commit"         -> IF e.err = "" THEN CommitOK(e) ELSE Abort(e)
    [] e.ev = "Rollback"       -> Abort(e)
    [] e.ev = "W"              -> Write(e)
    [] e.ev = "S"              -> Sync(e)
    [] e.ev = "Recovered"      -> Recovered(e)
    [] e.ev = "RecoverFailed"  -> ("C01" \notin Props /\ "C08" \notin Props) /\ UNCHANGED <<coreVars, begin>>
    [] e.ev = "Reopen"         -> Reopen(e)
    [] e.ev = "Note"           -> Note(e)
    [] OTHER                   -> FALSE

Cm0 == [root |-> 0, pages |-> EmptyFn]
Al0 == [dFree |-> {}, mFree |-> {}, dEnd |-> 2, mEnd |-> 0, mTot |-> 0, flp |-> {}, max |-> 0]
Wm0 == [map |-> EmptyFn, pgs |-> {}]
Hdr0 == [slot |-> 0, txid |-> 0, root |-> 0, fl |-> 0, wal |-> 0, dEnd |-> 2, mEnd |-> 0, mTot |-> 0, max |-> 0]
Lk0 == [sh |-> 0, pe |-> FALSE, res |-> FALSE]
Stats0 == [data |-> 0, meta |-> 0, metaUsed |-> 0, fsize |-> 0, maxb |-> 0, ovf |-> FALSE]
Dur0 == [p \in {0, 1} |-> [k |-> "H", ok |-> TRUE, txid |-> 1 - p, root |-> 0, fl |-> 0, wal |-> 0,
                           dEnd |-> 2, mEnd |-> 0, mTot |-> 0, max |-> 0]]

TInit ==
  /\ cm = Cm0 /\ cd = Cm0 /\ tx = NoTx /\ rds = EmptyFn
  /\ al = Al0 /\ wm = Wm0 /\ hdr = Hdr0 /\ lk = Lk0 /\ stats = Stats0
  /\ dur = Dur0 /\ pend = <<>> /\ inflight = None /\ maybe = {}
  /\ begin = None /\ l = 1 /\ tick = "q"

Reset ==
  /\ cm' = Cm0 /\ cd' = Cm0 /\ tx' = NoTx /\ rds' = EmptyFn
  /\ al' = Al0 /\ wm' = Wm0 /\ hdr' = Hdr0 /\ lk' = Lk0 /\ stats' = Stats0
  /\ dur' = Dur0 /\ pend' = <<>> /\ inflight' = None /\ maybe' = {}
  /\ begin' = None

TickOf(ev) == IF ev \in {"Adopt", "Commit", "Rollback", "Reopen", "Reset", "OpenResize"} THEN "q"
              ELSE IF ev \in {"W", "S", "T", "CommitBegin", "CommitSwitched"} THEN "io" ELSE "-"

TNext ==
  /\ l <= Len(Trace)
  /\ l' = l + 1
  /\ tick' = TickOf(Ev.ev)
  /\ IF Ev.ev = "Reset" THEN Reset ELSE Act(Ev)

CrashSafeT == tick \in {"q", "io"} => CrashSafe
ReopenStableT == tick = "q" => ReopenStable

TSpec == TInit /\ [][TNext]_tvars

Post == PrintT("@D " \o ToString(TLCGet("stats").diameter))
=============================================================================
