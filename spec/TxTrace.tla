------------------------------ MODULE TxTrace ------------------------------
(***************************************************************************)
(* Trace specification of the store: decides whether executions recorded   *)
(* from the real code (public API on a simulated disk, verif hooks inside  *)
(* the commit, I/O of the background writer) are behaviours of the         *)
(* sequential / crash model of TxCore.tla, and evaluates every named       *)
(* property in every state of the execution.                               *)
(*                                                                         *)
(* Logical variables (cm, tx, rds, cd, inflight, maybe) are computed by    *)
(* the actions below from the logged operation arguments; in-memory        *)
(* variables (al, wm, hdr, lk, stats) are bound to the projection of the   *)
(* real state logged with the event; disk variables (dur, pend) follow     *)
(* the logged I/O.  Results logged by the real code (ids returned by       *)
(* Alloc, bytes read, error or success) are checked against the model.     *)
(* Allocation policy is deliberately not constrained.                      *)
(***************************************************************************)
EXTENDS TxCore, Json

\* Property checks never block the validation of a trace: a failed check is recorded as a
\* deviation <<line, property, name>> and the logged state is adopted, so that the rest of
\* the trace is still examined (and every further violation is found in the same run).
\* Only an event that no action can explain at all rejects the trace.
F(p, name, cond) == IF cond THEN {} ELSE {<<p, name>>}

VARIABLES l,        \* next trace line
          begin,    \* projection at the begin of the running write transaction (RollbackExact)
          adev,     \* deviations found by the action of the last event: set of <<property, name>>
          devs,     \* deviations so far: set of <<line, property, name>> (first occurrence per trace)
          seen,     \* <<property, name>> pairs already recorded for the current trace
          tick      \* what the last event touched: "q" a transaction ended / file (re)opened,
                    \* "io" disk or commit ghosts changed, "-" neither (the expensive disk
                    \* invariants are re-evaluated only when their inputs changed)

Trace == ndJsonDeserialize("trace.ndjson")
Ev == Trace[l]

tvars == <<coreVars, l, begin, tick, adev, devs, seen>>

RegSet(regs) == UNION {(regs[i][1])..(regs[i][1] + regs[i][2] - 1) : i \in 1..Len(regs)}
SeqSet(s) == {s[i] : i \in 1..Len(s)}
PairMap(ps) == [k \in {ps[i][1] : i \in 1..Len(ps)} |-> (CHOOSE v \in {ps[i][2] : i \in 1..Len(ps)} : \E i \in 1..Len(ps) : ps[i][1] = k /\ ps[i][2] = v)]

\* projection of the real file state logged with an event
AlOf(st) == [dFree |-> RegSet(st.dfree), mFree |-> RegSet(st.mfree), dEnd |-> st.de, mEnd |-> st.me,
             mTot |-> st.mt, flp |-> RegSet(st.flp), max |-> st.maxp]
WmOf(st) == [map |-> PairMap(st.wal), pgs |-> RegSet(st.walpg)]
HdrOf(st) == [slot |-> st.slot, txid |-> st.txid, root |-> st.root, fl |-> st.hfl, wal |-> st.hwal,
              dEnd |-> st.hde, mEnd |-> st.hme, mTot |-> st.hmt, max |-> st.hmax]
LkOf(st) == [sh |-> st.sh, pe |-> st.pe, res |-> st.res]
StatsOf(st) == [data |-> st.sd, meta |-> st.sm, metaUsed |-> st.smu, fsize |-> st.fsz, maxb |-> st.maxb, ovf |-> st.ovf]

BindFile(st) == al' = AlOf(st) /\ wm' = WmOf(st) /\ hdr' = HdrOf(st) /\ lk' = LkOf(st) /\ stats' = StatsOf(st)
HasSt(e) == "st" \in DOMAIN e
\* events of goroutines that do not own the file state carry the lock projection only
BindOrKeep(e) == IF HasSt(e) THEN BindFile(e.st)
                 ELSE /\ UNCHANGED <<al, wm, hdr, stats>>
                      /\ IF "lk" \in DOMAIN e THEN lk' = LkOf(e.lk) ELSE UNCHANGED lk

Proj == <<al, wm, hdr.root, hdr.dEnd, hdr.mEnd, hdr.mTot, hdr.fl, hdr.wal, hdr.txid, hdr.slot>>
ProjOf(st) == <<AlOf(st), WmOf(st), st.root, st.hde, st.hme, st.hmt, st.hfl, st.hwal, st.txid, st.slot>>

DiskOf(c) ==   \* abstract content of a written page as decoded by the harness
  CASE c.k = "D" -> [k |-> "D", q |-> c.q]
    [] c.k = "H" -> [k |-> "H", ok |-> c.ok, txid |-> c.txid, root |-> c.root, fl |-> c.fl, wal |-> c.wal,
                     dEnd |-> c.de, mEnd |-> c.me, mTot |-> c.mt, max |-> c.max]
    [] c.k = "F" -> [k |-> "F", next |-> c.next, d |-> RegSet(c.d), m |-> RegSet(c.m)]
    [] c.k = "W" -> [k |-> "W", next |-> c.next, map |-> c.map]
    [] OTHER     -> [k |-> c.k]

PagesOf(ps) == [p \in {ps[i][1] : i \in 1..Len(ps)} |-> (CHOOSE c \in {ps[i][2] : i \in 1..Len(ps)} : \E i \in 1..Len(ps) : ps[i][1] = p /\ ps[i][2] = c)]

NoTx == None
KeepLogical == UNCHANGED <<cm, tx, rds>>
KeepDisk == UNCHANGED <<dur, pend>>
KeepGhost == UNCHANGED <<cd, inflight, maybe>>

(***************************************************************************)
(* Events                                                                  *)
(***************************************************************************)
\* Adopt: start of a trace - a file has been created or opened; the logical model is
\* taken from the log (an empty file, or the model state the harness carried over).
Adopt(e) ==
  /\ cm' = [root |-> e.root, pages |-> PagesOf(e.pages)]
  /\ cd' = cm' /\ tx' = NoTx /\ rds' = EmptyFn /\ inflight' = None /\ maybe' = {}
  /\ BindFile(e.st)
  /\ dur' = [p \in {e.disk[i][1] : i \in 1..Len(e.disk)} |->
               DiskOf((CHOOSE c \in {e.disk[i][2] : i \in 1..Len(e.disk)} : \E i \in 1..Len(e.disk) : e.disk[i][1] = p /\ e.disk[i][2] = c))]
  /\ pend' = <<>>
  /\ begin' = None

BeginW(e) ==
  /\ tx = NoTx /\ e.err = ""
  /\ tx' = [root |-> cm.root, w |-> EmptyFn, new |-> {}, freed |-> {}, overflow |-> e.overflow, sw |-> FALSE]
  /\ begin' = ProjOf(e.st)
  /\ BindFile(e.st) /\ UNCHANGED <<cm, rds>> /\ KeepDisk /\ KeepGhost

BeginR(e) ==
  /\ e.r \notin DOMAIN rds /\ e.err = ""
  /\ rds' = rds ++ [x \in {e.r} |-> cm]
  /\ BindOrKeep(e) /\ UNCHANGED <<cm, tx, begin>> /\ KeepDisk /\ KeepGhost

EndR(e) ==
  /\ e.r \in DOMAIN rds
  /\ rds' = Restrict(rds, DOMAIN rds \ {e.r})
  /\ BindOrKeep(e) /\ UNCHANGED <<cm, tx, begin>> /\ KeepDisk /\ KeepGhost

\* read through a read-only transaction: exactly the snapshot taken at its begin (C02)
ReadR(e) ==
  /\ e.r \in DOMAIN rds
  /\ UNCHANGED <<coreVars, begin>>

\* read inside the write transaction: own writes, else committed (C03)
ReadW(e) ==
  /\ tx # NoTx
  /\ UNCHANGED <<coreVars, begin>>

\* C04: ids handed out are unused
AllocOK(ids) ==
  /\ Cardinality(ids) > 0
  /\ \A p \in ids : p >= 2
  /\ Disjoint(ids, Live)                       \* incl. committed pages freed by this transaction
  /\ Disjoint(ids, tx.new \ tx.freed)
  /\ Disjoint(ids, MetaUsed)                   \* pages the file uses internally
  /\ Disjoint(ids, al.mFree)
  /\ ids \subseteq al.dFree \cup {p \in Int : p >= al.dEnd}   \* really unused before the call
  /\ (al.max > 0 => \A p \in ids : p < al.max)

Alloc(e) ==
  /\ tx # NoTx
  /\ IF e.err = ""
       THEN LET ids == SeqSet(e.ids) IN
            /\ Len(e.ids) = e.n
            /\ tx' = [tx EXCEPT !.new = @ \cup ids, !.freed = @ \ ids]
       ELSE tx' = tx
  /\ BindFile(e.st) /\ UNCHANGED <<cm, rds, begin>> /\ KeepDisk /\ KeepGhost

SetB(e) ==   \* SetBytes of the first e.nq quarters with version e.v
  /\ tx # NoTx /\ e.id \in TxLive
  /\ tx' = IF e.err = "" THEN [tx EXCEPT !.w = @ ++ [x \in {e.id} |-> SetQuarters(TxView(e.id), e.nq, e.v)]] ELSE tx
  /\ BindOrKeep(e) /\ UNCHANGED <<cm, rds, begin>> /\ KeepDisk /\ KeepGhost

LoadSet(e) == \* Load, overwrite quarter e.k in place, MarkDirty
  /\ tx # NoTx /\ e.id \in TxLive
  /\ tx' = IF e.err = "" THEN [tx EXCEPT !.w = @ ++ [x \in {e.id} |-> [TxView(e.id) EXCEPT ![e.k] = e.v]]] ELSE tx
  /\ BindOrKeep(e) /\ UNCHANGED <<cm, rds, begin>> /\ KeepDisk /\ KeepGhost

Free(e) ==
  /\ tx # NoTx /\ e.err = "" /\ e.id \in TxLive
  /\ tx' = [tx EXCEPT !.freed = @ \cup {e.id}, !.w = Restrict(@, DOMAIN @ \ {e.id})]
  /\ BindFile(e.st) /\ UNCHANGED <<cm, rds, begin>> /\ KeepDisk /\ KeepGhost

SetRoot(e) ==
  /\ tx # NoTx
  /\ tx' = [tx EXCEPT !.root = e.id]
  /\ UNCHANGED <<cm, rds, begin, al, wm, hdr, lk, stats>> /\ KeepDisk /\ KeepGhost

\* Flush / CheckpointWAL change no logical state; the file projection is re-bound
FlushOrCheckpoint(e) ==
  /\ tx # NoTx
  /\ BindFile(e.st) /\ KeepLogical /\ UNCHANGED begin /\ KeepDisk /\ KeepGhost

\* hook commit/pending: the commit starts; from now on a crash may show its result
CommitBegin(e) ==
  /\ tx # NoTx /\ inflight = None
  /\ inflight' = CommitResult
  /\ UNCHANGED <<cm, tx, rds, begin, al, wm, hdr, lk, stats, cd, maybe>> /\ KeepDisk

\* hook commit/switched: under the exclusive lock the new state becomes the visible one
CommitSwitched(e) ==
  /\ tx # NoTx /\ inflight # None
  /\ cm' = inflight /\ cd' = inflight
  /\ tx' = [tx EXCEPT !.w = EmptyFn, !.new = {}, !.freed = {}, !.sw = TRUE]   \* its effects are part of cm now
  /\ BindFile(e.st)
  /\ UNCHANGED <<rds, begin, inflight, maybe>> /\ KeepDisk

CommitOK(e) ==   \* Commit returned nil
  /\ tx # NoTx /\ e.err = ""
  /\ tx.sw                                        \* it went through CommitSwitched
  /\ tx' = NoTx /\ inflight' = None /\ begin' = None
  /\ maybe' = {}                                  \* its header replaced the slot of earlier failed attempts
  /\ BindFile(e.st) /\ UNCHANGED <<cm, rds, cd>> /\ KeepDisk

\* Commit returned an error, Rollback, or Close of a write transaction: no trace left (C07)
Abort(e) ==
  /\ tx # NoTx
  \* C08: a Commit may only fail if an injected I/O failure hit this transaction or the
  \* file is out of space; the failure of an earlier transaction must not leak into it
  /\ tx' = NoTx /\ begin' = None
  /\ BindFile(e.st)
  /\ inflight' = None
  /\ maybe' = IF inflight # None /\ e.hdrIssued THEN maybe \cup {inflight} ELSE maybe
  /\ UNCHANGED <<cm, rds, cd>> /\ KeepDisk

\* I/O of the background writer, as seen by the simulated disk
Write(e) ==
  /\ pend' = Append(pend, <<e.pg, DiskOf(e.c)>>)
  /\ UNCHANGED <<cm, tx, rds, al, wm, hdr, lk, stats, dur, begin>> /\ KeepGhost

Sync(e) ==
  /\ dur' = Vol /\ pend' = <<>>
  \* a failed attempt whose header did not win can no longer show up once another header is durable
  /\ UNCHANGED <<cm, tx, rds, al, wm, hdr, lk, stats, begin>> /\ KeepGhost

\* observation: the real Open on a crash image of this point recovered this state
Recovered(e) ==
  /\ UNCHANGED <<coreVars, begin>>

\* C10: close and reopen - the complete projection of the reopened file equals the one
\* before the close; the logical model and the disk are untouched
Reopen(e) ==
  /\ tx = NoTx /\ DOMAIN rds = {}
  /\ BindFile(e.st)
  /\ KeepLogical /\ UNCHANGED begin /\ KeepDisk /\ KeepGhost

\* C14: close and open again with a new maximum size: contents and root are untouched, the
\* projection is re-bound (the allocator limits and free lists may change)
OpenResize(e) ==
  /\ tx = NoTx /\ DOMAIN rds = {}
  /\ BindFile(e.st)
  /\ KeepLogical /\ UNCHANGED begin /\ KeepDisk /\ KeepGhost

\* observation without effect on the model (markers)
Note(e) == UNCHANGED <<coreVars, begin>>

Act(e) ==
  CASE e.ev = "Adopt"          -> Adopt(e)
    [] e.ev = "BeginW"         -> BeginW(e)
    [] e.ev = "BeginR"         -> BeginR(e)
    [] e.ev = "EndR"           -> EndR(e)
    [] e.ev = "ReadR"          -> ReadR(e)
    [] e.ev = "ReadW"          -> ReadW(e)
    [] e.ev = "Alloc"          -> Alloc(e)
    [] e.ev = "Set"            -> SetB(e)
    [] e.ev = "LoadSet"        -> LoadSet(e)
    [] e.ev = "Free"           -> Free(e)
    [] e.ev = "SetRoot"        -> SetRoot(e)
    [] e.ev = "Flush"          -> FlushOrCheckpoint(e)
    [] e.ev = "Checkpoint"     -> FlushOrCheckpoint(e)
    [] e.ev = "CommitBegin"    -> CommitBegin(e)
    [] e.ev = "CommitSwitched" -> CommitSwitched(e)
    [] e.ev = "Commit"         -> IF e.err = "" THEN CommitOK(e) ELSE Abort(e)
    [] e.ev = "Rollback"       -> Abort(e)
    [] e.ev = "W"              -> Write(e)
    [] e.ev = "S"              -> Sync(e)
    [] e.ev = "Recovered"      -> Recovered(e)
    [] e.ev = "RecoverFailed"  -> Note(e)
    [] e.ev = "Reopen"         -> Reopen(e)
    [] e.ev = "OpenResize"     -> OpenResize(e)
    [] e.ev = "Note"           -> Note(e)
    [] e.ev = "Blocked"        -> Note(e)     \* a Begin did not return although no transaction is open
    [] OTHER                   -> FALSE

Cm0 == [root |-> 0, pages |-> EmptyFn]
Al0 == [dFree |-> {}, mFree |-> {}, dEnd |-> 2, mEnd |-> 0, mTot |-> 0, flp |-> {}, max |-> 0]
Wm0 == [map |-> EmptyFn, pgs |-> {}]
Hdr0 == [slot |-> 0, txid |-> 0, root |-> 0, fl |-> 0, wal |-> 0, dEnd |-> 2, mEnd |-> 0, mTot |-> 0, max |-> 0]
Lk0 == [sh |-> 0, pe |-> FALSE, res |-> FALSE]
Stats0 == [data |-> 0, meta |-> 0, metaUsed |-> 0, fsize |-> 0, maxb |-> 0, ovf |-> FALSE]
Dur0 == [p \in {0, 1} |-> [k |-> "H", ok |-> TRUE, txid |-> 1 - p, root |-> 0, fl |-> 0, wal |-> 0,
                           dEnd |-> 2, mEnd |-> 0, mTot |-> 0, max |-> 0]]

TInit ==
  /\ cm = Cm0 /\ cd = Cm0 /\ tx = NoTx /\ rds = EmptyFn
  /\ al = Al0 /\ wm = Wm0 /\ hdr = Hdr0 /\ lk = Lk0 /\ stats = Stats0
  /\ dur = Dur0 /\ pend = <<>> /\ inflight = None /\ maybe = {}
  /\ begin = None /\ l = 1 /\ tick = "q" /\ adev = {} /\ devs = {} /\ seen = {}
  /\ TLCSet(1, {})

Reset ==
  /\ cm' = Cm0 /\ cd' = Cm0 /\ tx' = NoTx /\ rds' = EmptyFn
  /\ al' = Al0 /\ wm' = Wm0 /\ hdr' = Hdr0 /\ lk' = Lk0 /\ stats' = Stats0
  /\ dur' = Dur0 /\ pend' = <<>> /\ inflight' = None /\ maybe' = {}
  /\ begin' = None

TickOf(ev) == IF ev \in {"Adopt", "Commit", "Rollback", "Reopen", "Reset", "OpenResize"} THEN "q"
              ELSE IF ev \in {"W", "S", "T", "CommitBegin", "CommitSwitched"} THEN "io" ELSE "-"

(***************************************************************************)
(* Checks of the logged results against the model (evaluated in the state  *)
(* before the event)                                                       *)
(***************************************************************************)
RecoveredOK(e) ==
  \E E \in Allowed :
     /\ e.root = E.root
     /\ LET got == PagesOf(e.pages) IN
        /\ DOMAIN got = DOMAIN E.pages
        /\ \A p \in DOMAIN got : MatchPage(got[p], E.pages[p])

ADev(e) ==
  CASE e.ev = "ReadR" ->      \* C02/C03: exactly the snapshot taken at the begin of the reader
         \* (reading a page id that is not part of the snapshot is not constrained)
         \* (a page that was allocated and committed but never written has no defined contents:
         \* reading it may even fail when it lies beyond the extent of the file)
         F("C03", "ReadR", (e.r \in DOMAIN rds /\ e.id \in DOMAIN rds[e.r].pages) =>
              \/ rds[e.r].pages[e.id] = UndefPage
              \/ e.err = "" /\ MatchPage(e.q, rds[e.r].pages[e.id]))
    [] e.ev = "ReadW" ->      \* C03: own writes, else committed
         F("C03", "ReadW", tx # NoTx =>
              IF e.id \in TxLive
                THEN \/ TxView(e.id) = UndefPage
                     \/ e.err = "" /\ MatchPage(e.q, TxView(e.id))
                     \/ e.err # "" /\ e.id \in tx.new /\ e.id \notin DOMAIN tx.w    \* fresh page without contents
                ELSE e.err # "")
    [] e.ev \in {"Set", "LoadSet"} ->
         \* a valid write is accepted (loading a page that was never written may fail)
         F("C03", "WriteAccepted", (tx # NoTx /\ e.id \in TxLive /\ e.err # "") => TxView(e.id) = UndefPage)
    [] e.ev = "BeginW" -> F("C03", "BeginRoot", e.err = "" => e.root = cm.root)
    [] e.ev = "BeginR" -> F("C03", "BeginRoot", e.err = "" => e.root = cm.root)
    [] e.ev = "Alloc" ->      \* C04
         F("C04", "AllocOK", (tx # NoTx /\ e.err = "") =>
              LET ids == SeqSet(e.ids) IN Cardinality(ids) = e.n /\ AllocOK(ids))
    [] e.ev = "CommitSwitched" ->   \* C02: no reader is alive and none can begin while the state is switched
         F("C02", "SwitchExclusive", DOMAIN rds = {} /\ e.st.pe /\ e.st.sh = 0)
    [] (e.ev = "Commit" /\ e.err # "") \/ e.ev = "Rollback" ->
         \* C07: the complete projection is the one of Begin
         F("C07", "RollbackExact", tx # NoTx => ProjOf(e.st) = begin)
         \* C08: a Commit may only fail if an injected I/O failure hit this transaction or the file
         \* is out of space, and never after the in-memory switch
         \cup (IF e.ev = "Commit" /\ tx # NoTx
                THEN F("C08", "UnexplainedCommitError", e.faulty \/ e.oom) \cup F("C08", "ErrorAfterSwitch", ~tx.sw)
                ELSE {})
    [] e.ev = "Recovered" -> F("C01", "Recovered", RecoveredOK(e))
    [] e.ev = "RecoverFailed" -> {<<"C01", "RecoverFailed">>}
    [] e.ev = "Blocked" -> {<<"C09", "BlockedWhenIdle">>}
    [] e.ev = "Reopen" -> F("C10", "ReopenProjection", ProjOf(e.st) = Proj)
    [] e.ev = "OpenResize" ->
         \* the new limit is stored in the header and in force; nothing else of the logical file changed
         F("C14", "LimitPersisted", e.st.hmax = e.newmax /\ e.st.maxp = e.newmax)
         \cup F("C14", "ResizeKeepsState", e.st.root = cm.root /\ LET a == AlOf(e.st) w == WmOf(e.st) IN
                  /\ (2..(a.dEnd - 1)) \ (a.dFree \cup a.mFree \cup a.flp \cup w.pgs \cup Range(w.map)) = Live
                  /\ w.map = wm.map)
    [] OTHER -> {}

\* state properties (the disk properties are re-evaluated only when their inputs changed)
InvDevs ==
  F("C04", "Ownership", Ownership) \cup F("C11", "Partition", Partition)
  \cup F("C11", "MetaAccounting", MetaAccounting) \cup F("C11", "Conservation", Conservation)
  \cup F("C11", "StatsTruthful", StatsTruthful) \cup F("C11", "ExtentBound", ExtentBound)
  \cup F("C03", "HeaderAgrees", HeaderAgrees)
  \cup F("C09", "IdleLockFree", IdleLockFree) \cup F("C09", "SharedMatchesReaders", SharedMatchesReaders)
  \cup (IF tick \in {"q", "io"} THEN F("C01", "CrashSafe", CrashSafe) ELSE {})
  \cup (IF tick = "q" THEN F("C10", "ReopenStable", ReopenStable) ELSE {})

TNext ==
  /\ l <= Len(Trace)
  /\ l' = l + 1
  /\ tick' = TickOf(Ev.ev)
  /\ adev' = IF Ev.ev = "Reset" THEN {} ELSE ADev(Ev)
  /\ IF Ev.ev = "Reset" THEN Reset ELSE Act(Ev)
  \* state properties are evaluated on the current state, i.e. the one the previous event
  \* produced (line l - 1); the harness ends every batch with a final Note line
  /\ LET inv == {<<l - 1, d[1], d[2]>> : d \in InvDevs \ seen}
         act == {<<l, d[1], d[2]>> : d \in adev' \ (IF Ev.ev = "Reset" THEN {} ELSE seen \cup InvDevs)}
     IN
     /\ seen' = IF Ev.ev = "Reset" THEN {} ELSE seen \cup InvDevs \cup adev'
     /\ devs' = IF inv \cup act = {} THEN devs ELSE devs \cup inv \cup act
     /\ IF inv \cup act = {} THEN TRUE ELSE TLCSet(1, devs')

CrashSafeT == tick \in {"q", "io"} => CrashSafe
ReopenStableT == tick = "q" => ReopenStable

TSpec == TInit /\ [][TNext]_tvars

Post == /\ PrintT("@D " \o ToString(TLCGet("stats").diameter))
        /\ PrintT("@V " \o ToString(TLCGet(1)))
=============================================================================
