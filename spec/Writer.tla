------------------------------- MODULE Writer -------------------------------
(***************************************************************************)
(* The background writer of the store (write.go): transactions schedule    *)
(* page writes and sync requests, one goroutine executes them in batches.  *)
(*                                                                         *)
(*   Schedule / SyncReq : the calls of the (single) write transaction; a   *)
(*                        sync request covers the writes scheduled since   *)
(*                        the previous request (count = pending)           *)
(*   NextCommand        : writer.nextCommand - takes up to BUF messages,   *)
(*                        but never beyond the boundary of the oldest sync *)
(*                        request; the request is attached when all        *)
(*                        messages before its boundary fit into the batch  *)
(*   WriteMsg           : one message of the batch, in page id order       *)
(*                        (stable: equal ids keep their schedule order);   *)
(*                        the error state is kept per transaction          *)
(*   ExecSync           : fsync after the batch; syncResetErr clears the   *)
(*                        transaction's error state                        *)
(*                                                                         *)
(* A transaction ends either after waiting for all its requests (commit)   *)
(* or without waiting (rollback): writes of a rolled back transaction may  *)
(* still be queued when the next transaction schedules its own.            *)
(*                                                                         *)
(* Properties: PageOrder (C03: the last write scheduled for a page is the  *)
(* last one written), SyncCovers (C01: a successful sync is executed after *)
(* every write scheduled before the request), ErrorIsolation (C08: only    *)
(* a transaction hit by an I/O failure sees an error), Released (every     *)
(* request is answered: nobody waits forever).                             *)
(***************************************************************************)
EXTENDS Integers, Sequences, FiniteSets, TLC

CONSTANTS Pages,       \* page ids (integers)
          MaxTx,       \* number of transactions
          MaxOps,      \* schedule / sync calls per transaction
          BUF,         \* size of the writer's batch buffer (1024 in the code)
          Faults,      \* BOOLEAN: writes and syncs may fail
          StableSort   \* BOOLEAN: FALSE models sort.Slice (the order of equal ids is arbitrary)

VARIABLES
  q,          \* scheduled messages [tx, pg, v]
  fs,         \* sync requests [tx, count, reset, upto]
  pending,    \* writes scheduled since the last sync request
  published,  \* writes taken by the writer since it last attached a sync request
  cmd,        \* batch in execution: [msgs, fsync, i] or NoCmd
  failed,     \* per transaction: first error met by the writer (write.go: txWriteSync.failed)
  err,        \* per transaction: what Wait() returns
  refs,       \* per transaction: requests not yet answered (the WaitGroup)
  vol, dur,   \* page -> version in the page cache / on the platter
  tx, nops,   \* current transaction, its number of calls
  ver,        \* version counter
  nsched,     \* ghost: number of messages scheduled so far
  ndone,      \* ghost: number of messages the writer has processed
  wlog,       \* ghost: page -> versions written, in order
  hit         \* ghost: transactions an injected failure hit

vars == <<q, fs, pending, published, cmd, failed, err, refs, vol, dur, tx, nops, ver, nsched, ndone, wlog, hit>>

NoCmd == [msgs |-> <<>>, fsync |-> <<>>, i |-> 0]
Txs == 1..MaxTx
Min(a, b) == IF a < b THEN a ELSE b

Init ==
  /\ q = <<>> /\ fs = <<>> /\ pending = 0 /\ published = 0 /\ cmd = NoCmd
  /\ failed = [t \in Txs |-> FALSE] /\ err = [t \in Txs |-> FALSE] /\ refs = [t \in Txs |-> 0]
  /\ vol = [p \in Pages |-> 0] /\ dur = [p \in Pages |-> 0]
  /\ tx = 1 /\ nops = 0 /\ ver = 0 /\ nsched = 0 /\ ndone = 0
  /\ wlog = [p \in Pages |-> <<>>] /\ hit = {}

(***************************************************************************)
(* The transaction                                                         *)
(***************************************************************************)
Schedule(p) ==
  /\ tx <= MaxTx /\ nops < MaxOps
  /\ q' = Append(q, [tx |-> tx, pg |-> p, v |-> ver + 1])
  /\ ver' = ver + 1 /\ pending' = pending + 1 /\ nsched' = nsched + 1 /\ nops' = nops + 1
  /\ refs' = [refs EXCEPT ![tx] = @ + 1]
  /\ UNCHANGED <<fs, published, cmd, failed, err, vol, dur, tx, ndone, wlog, hit>>

SyncReq(reset) ==
  /\ tx <= MaxTx /\ nops < MaxOps
  /\ fs' = Append(fs, [tx |-> tx, count |-> pending, reset |-> reset, upto |-> nsched])
  /\ pending' = 0 /\ nops' = nops + 1
  /\ refs' = [refs EXCEPT ![tx] = @ + 1]
  /\ UNCHANGED <<q, published, cmd, failed, err, vol, dur, tx, ver, nsched, ndone, wlog, hit>>

\* commit: waits for its requests; rollback: does not
EndTx(wait) ==
  /\ tx <= MaxTx /\ (wait => refs[tx] = 0)
  /\ tx' = tx + 1 /\ nops' = 0
  /\ UNCHANGED <<q, fs, pending, published, cmd, failed, err, refs, vol, dur, ver, nsched, ndone, wlog, hit>>

(***************************************************************************)
(* The writer goroutine                                                    *)
(***************************************************************************)
\* stable sort by page id: repeatedly take the first message with the smallest id
RECURSIVE SortStable(_)
SortStable(s) ==
  IF s = <<>> THEN <<>>
  ELSE LET m == CHOOSE i \in 1..Len(s) : /\ \A j \in 1..Len(s) : s[i].pg <= s[j].pg
                                         /\ \A j \in 1..(i - 1) : s[j].pg # s[i].pg
       IN <<s[m]>> \o SortStable([k \in 1..(Len(s) - 1) |-> IF k < m THEN s[k] ELSE s[k + 1]])

IsSorted(s) == \A i \in 1..(Len(s) - 1) : s[i].pg <= s[i + 1].pg
Perms(s) == {t \in [1..Len(s) -> {s[i] : i \in 1..Len(s)}] :
               \A x \in {s[i] : i \in 1..Len(s)} :
                  Cardinality({i \in 1..Len(s) : t[i] = x}) = Cardinality({i \in 1..Len(s) : s[i] = x})}

NextCommand ==
  /\ cmd = NoCmd /\ (q # <<>> \/ fs # <<>>)
  /\ LET max0 == Min(Len(q), BUF)
         hasSync == fs # <<>>
         outstanding == IF hasSync THEN fs[1].count - published ELSE 0
         attach == hasSync /\ outstanding <= max0
         n == IF attach THEN outstanding ELSE max0
         batch == SubSeq(q, 1, n)
     IN
     /\ q' = SubSeq(q, n + 1, Len(q))
     /\ fs' = IF attach THEN Tail(fs) ELSE fs
     /\ published' = IF attach THEN 0 ELSE published + n
     /\ \E sorted \in (IF StableSort THEN {SortStable(batch)} ELSE {t \in Perms(batch) : IsSorted(t)}) :
          cmd' = [msgs |-> sorted, fsync |-> IF attach THEN <<fs[1]>> ELSE <<>>, i |-> 1]
  /\ UNCHANGED <<pending, failed, err, refs, vol, dur, tx, nops, ver, nsched, ndone, wlog, hit>>

WriteMsg ==
  /\ cmd # NoCmd /\ cmd.i <= Len(cmd.msgs)
  /\ LET m == cmd.msgs[cmd.i] IN
     /\ \E fail \in (IF Faults THEN BOOLEAN ELSE {FALSE}) :
          IF failed[m.tx]
            THEN /\ ~fail /\ UNCHANGED <<failed, vol, wlog, hit>>       \* skipped: the transaction has failed already
            ELSE IF fail
              THEN /\ failed' = [failed EXCEPT ![m.tx] = TRUE] /\ hit' = hit \cup {m.tx}
                   /\ UNCHANGED <<vol, wlog>>
              ELSE /\ vol' = [vol EXCEPT ![m.pg] = m.v]
                   /\ wlog' = [wlog EXCEPT ![m.pg] = Append(@, m.v)]
                   /\ UNCHANGED <<failed, hit>>
     /\ err' = [err EXCEPT ![m.tx] = failed'[m.tx]]
     /\ refs' = [refs EXCEPT ![m.tx] = @ - 1]
  /\ ndone' = ndone + 1
  /\ cmd' = [cmd EXCEPT !.i = @ + 1]
  /\ UNCHANGED <<q, fs, pending, published, dur, tx, nops, ver, nsched>>

FinishCmd ==
  /\ cmd # NoCmd /\ cmd.i > Len(cmd.msgs)
  /\ IF cmd.fsync = <<>>
       THEN UNCHANGED <<failed, err, refs, dur, hit>>
       ELSE LET s == cmd.fsync[1] IN
            \E fail \in (IF Faults THEN BOOLEAN ELSE {FALSE}) :
              /\ IF failed[s.tx]
                   THEN /\ ~fail /\ err' = [err EXCEPT ![s.tx] = TRUE] /\ UNCHANGED <<dur, hit>>
                   ELSE IF fail
                     THEN /\ err' = [err EXCEPT ![s.tx] = TRUE] /\ hit' = hit \cup {s.tx} /\ UNCHANGED dur
                     ELSE /\ err' = [err EXCEPT ![s.tx] = FALSE] /\ dur' = vol /\ UNCHANGED hit
              /\ failed' = [failed EXCEPT ![s.tx] = IF s.reset THEN FALSE ELSE (failed[s.tx] \/ fail)]
              /\ refs' = [refs EXCEPT ![s.tx] = @ - 1]
  /\ cmd' = NoCmd
  /\ UNCHANGED <<q, fs, pending, published, vol, tx, nops, ver, nsched, ndone, wlog>>

Next ==
  \/ \E p \in Pages : Schedule(p)
  \/ \E r \in BOOLEAN : SyncReq(r)
  \/ \E w \in BOOLEAN : EndTx(w)
  \/ NextCommand \/ WriteMsg \/ FinishCmd

Spec == Init /\ [][Next]_vars /\ WF_vars(NextCommand) /\ WF_vars(WriteMsg) /\ WF_vars(FinishCmd)

(***************************************************************************)
(* Properties                                                              *)
(***************************************************************************)
TypeOK == /\ pending >= 0 /\ published >= 0 /\ \A t \in Txs : refs[t] >= 0
          /\ \A i \in 1..Len(fs) : fs[i].count >= 0

\* C03: two writes to one page reach the disk in the order in which they were scheduled
PageOrder == \A p \in Pages : \A i \in 1..(Len(wlog[p]) - 1) : wlog[p][i] < wlog[p][i + 1]

\* C01: when a sync request is executed, every write scheduled before it has been processed
SyncCovers == (cmd # NoCmd /\ cmd.i > Len(cmd.msgs) /\ cmd.fsync # <<>>) => ndone >= cmd.fsync[1].upto

\* the sync request boundary is never crossed by a batch (no write scheduled after the request
\* is written before the sync)
NoOvertake == (cmd # NoCmd /\ cmd.fsync # <<>>) => ndone + (Len(cmd.msgs) - cmd.i + 1) = cmd.fsync[1].upto

\* C08: a transaction sees an error only if an injected failure hit one of its own requests
ErrorIsolation == \A t \in Txs : err[t] => t \in hit

\* C09-like: every request is answered
Released == <>[](\A t \in Txs : refs[t] = 0)
=============================================================================
