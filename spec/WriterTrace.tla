----------------------------- MODULE WriterTrace -----------------------------
(***************************************************************************)
(* Judges executions of the real background writer (write.go) recorded at  *)
(* its hooks against the rules of Writer.tla:                              *)
(*   Sched   tx pg h      writer.Schedule (under the writer's mutex)       *)
(*   SyncReq tx reset     writer.Sync                                      *)
(*   Written pg h err inj one message executed by the writer goroutine     *)
(*   Synced  err reset inj  one sync request executed                      *)
(* tx: number of the write transaction the call belongs to (transactions   *)
(* are serialised by the file lock), h: hash of the page contents, inj: an *)
(* I/O failure was injected into the simulated disk since the writer's     *)
(* previous step.  The batching itself is not observed; what the writer    *)
(* may do next follows from the queue:                                     *)
(*   PageOrder      (C03) a write is the oldest queued one for its page    *)
(*   NoOvertake     (C01) no write scheduled after the oldest pending sync *)
(*                        request is executed before that sync             *)
(*   SyncCovers     (C01) a sync is executed only after every write        *)
(*                        scheduled before its request                     *)
(*   ErrorIsolation (C08) an operation reports an error only if a failure  *)
(*                        was injected or its own transaction had failed   *)
(*   FailureSticks  (C08) after a failure the transaction's later          *)
(*                        operations report an error until a sync with     *)
(*                        syncResetErr                                     *)
(***************************************************************************)
EXTENDS Integers, Sequences, FiniteSets, TLC, Json

VARIABLES q,        \* queued messages [seq, tx, pg, h]
          fs,       \* pending sync requests [tx, reset, upto]
          nsched,   \* messages scheduled so far
          failedTx, \* transactions in the failed state
          closing,  \* File.Close has been called: the writer is stopped and the file closed under it
                    \* (writes of a rolled back transaction that nobody waits for may fail or be dropped)
          l, devs

vars == <<q, fs, nsched, failedTx, closing, l, devs>>
Trace == ndJsonDeserialize("trace.ndjson")
Ev == Trace[l]

F(p, name, cond) == IF cond THEN {} ELSE {<<p, name>>}

\* index of the message a Written event refers to: the oldest queued one with this page and content
Match(e) == {k \in 1..Len(q) : q[k].pg = e.pg /\ q[k].h = e.h}
First(S) == CHOOSE k \in S : \A j \in S : k <= j
Remove(s, k) == [i \in 1..(Len(s) - 1) |-> IF i < k THEN s[i] ELSE s[i + 1]]

Dev(e) ==
  CASE e.ev = "Written" ->
         IF Match(e) = {} THEN {<<"C03", "WriteNeverScheduled">>}
         ELSE LET k == First(Match(e))  m == q[k] IN
              F("C03", "PageOrder", \A j \in 1..(k - 1) : q[j].pg # e.pg)
              \cup F("C01", "NoOvertake", fs = <<>> \/ m.seq <= fs[1].upto)
              \cup F("C08", "ErrorIsolation", e.err => (e.inj \/ m.tx \in failedTx \/ closing))
              \cup F("C08", "FailureSticks", m.tx \in failedTx => e.err)
    [] e.ev = "Synced" ->
         IF fs = <<>> THEN {<<"C01", "SyncWithoutRequest">>}
         ELSE LET s == fs[1] IN
              F("C01", "SyncCovers", \A j \in 1..Len(q) : q[j].seq > s.upto)
              \cup F("C08", "ErrorIsolation", e.err => (e.inj \/ s.tx \in failedTx \/ closing))
              \cup F("C08", "FailureSticks", s.tx \in failedTx => e.err)
              \cup F("C08", "ResetFlag", e.reset = s.reset)
    [] OTHER -> {}

Act(e) ==
  CASE e.ev = "Sched" ->
         /\ q' = Append(q, [seq |-> nsched + 1, tx |-> e.tx, pg |-> e.pg, h |-> e.h])
         /\ nsched' = nsched + 1 /\ UNCHANGED <<fs, failedTx, closing>>
    [] e.ev = "SyncReq" ->
         /\ fs' = Append(fs, [tx |-> e.tx, reset |-> e.reset, upto |-> nsched])
         /\ UNCHANGED <<q, nsched, failedTx, closing>>
    [] e.ev = "Written" ->
         IF Match(e) = {} THEN UNCHANGED <<q, fs, nsched, failedTx, closing>>
         ELSE LET k == First(Match(e)) IN
              /\ q' = Remove(q, k)
              /\ failedTx' = IF e.err THEN failedTx \cup {q[k].tx} ELSE failedTx
              /\ UNCHANGED <<fs, nsched, closing>>
    [] e.ev = "Synced" ->
         IF fs = <<>> THEN UNCHANGED <<q, fs, nsched, failedTx, closing>>
         ELSE /\ fs' = Tail(fs)
              /\ failedTx' = IF fs[1].reset THEN failedTx \ {fs[1].tx}
                             ELSE IF e.err THEN failedTx \cup {fs[1].tx} ELSE failedTx
              /\ UNCHANGED <<q, nsched, closing>>
    [] e.ev = "Reset" -> q' = <<>> /\ fs' = <<>> /\ nsched' = 0 /\ failedTx' = {} /\ closing' = FALSE
    [] e.ev = "Closing" -> closing' = TRUE /\ UNCHANGED <<q, fs, nsched, failedTx>>
    [] e.ev = "Note" -> UNCHANGED <<q, fs, nsched, failedTx, closing>>
    [] OTHER -> FALSE

TInit == q = <<>> /\ fs = <<>> /\ nsched = 0 /\ failedTx = {} /\ closing = FALSE /\ l = 1 /\ devs = {} /\ TLCSet(1, {})
TNext ==
  /\ l <= Len(Trace)
  /\ l' = l + 1
  /\ Act(Ev)
  /\ devs' = devs \cup {<<l, d[1], d[2]>> : d \in Dev(Ev)}
  /\ IF devs' # devs THEN TLCSet(1, devs') ELSE TRUE
TSpec == TInit /\ [][TNext]_vars
Post == /\ PrintT("@D " \o ToString(TLCGet("stats").diameter))
        /\ PrintT("@V " \o ToString(TLCGet(1)))
=============================================================================
