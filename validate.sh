#!/bin/bash
# validates MANIFEST.json and all evidence files against the schemas
python3-vt - <<'PY'
import json,jsonschema,glob,sys
ok=True
try:
    jsonschema.validate(json.load(open('/verif/MANIFEST.json')), json.load(open('/root/.vp/MANIFEST.schema.json')))
except Exception as e:
    print('MANIFEST invalid:', e); ok=False
sch=json.load(open('/root/.vp/EVIDENCE.schema.json'))
for f in sorted(glob.glob('/verif/evidence/*.json')):
    try:
        jsonschema.validate(json.load(open(f)), sch)
    except Exception as e:
        print(f, 'invalid:', str(e)[:300]); ok=False
print('valid' if ok else 'INVALID')
sys.exit(0 if ok else 1)
PY
